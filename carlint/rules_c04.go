package main

import (
	"fmt"
	"go/token"
	"go/types"
	"sort"
	"strings"

	"golang.org/x/tools/go/ssa"
)

func init() {
	register(PropertyDef{
		ID: "C04",
		Explanation: "Decided statically: (R04a) store.ShouldPut and store.Has consult index predicates of the same key granularity under the same option branch " +
			"(granularity is derived from what each InsertionIndex predicate's iterator actually compares: whole CID, multihash bytes, or bare digest), and " +
			"their 4 call sites pass the options by position; (R04b) in every lookup/write method of ReadOnly, ReadWrite, StorageCar and DeferredCarWriter " +
			"each use of the index, writer or backing lookup is behind the not-closed outcome of the closed flag (writes of ReadWrite also behind not-finalized); " +
			"(R04c) every return of a finalizer leaves the store closed (a store of true to the closed flag precedes it on all paths, or it is behind the " +
			"already-closed outcome), except the validated not-a-writable-store exits; (R04d) identity short-circuits in the methods documented to defer to " +
			"the index are behind !StoreIdentityCIDs; (R04e) ShouldPut answers anything but constant false only behind cidLen <= MaxIndexCidSize, performs no " +
			"mutation, and both put paths write/insert only behind (err == nil, should == true). NOT decided: equality of results with a map model over " +
			"operation histories, the LLRB multimap itself, exact bytes returned.",
		Assumptions: []string{"llrb.AscendGreaterOrEqual visits every item whose key is >= the pivot in order", "ReadOnly.GetSize answering identity CIDs unconditionally is documented behaviour (pinned by TestReadOnly)"},
		Rules: []RuleDef{
			{ID: "R04a", Floor: 2 + 2 + 4, Doc: "sibling predicate agreement between ShouldPut and Has by derived key granularity; positional option arguments at call sites", Run: ruleR04a},
			{ID: "R04b", Floor: 14, Doc: "typestate: index/writer/backing uses behind the not-closed (and not-finalized for writes) outcome", Run: ruleR04b},
			{ID: "R04c", Floor: 4, Doc: "finalizers leave the store closed on every return", Run: ruleR04c},
			{ID: "R04d", Floor: 6, Doc: "identity short-circuit only behind !StoreIdentityCIDs in Has/Get/GetStream/ShouldPut/store.Has", Run: ruleR04d},
			{ID: "R04g", Floor: 1, Doc: "IsIdentity hands out the digest a multihash decoder produced (DecodedMultihash.Digest), never a fixed-offset slice of the raw multihash (the length prefix is a varint: 2 bytes only below 128)", Run: ruleR04g},
			{ID: "R04h", Floor: 10, Doc: "option plumbing: wherever a repository function has a parameter named after a field of v2.Options and a caller passes a field of Options for it, it is that field (same-typed options swapped or the wrong line deleted compile and pass the suite)", Run: ruleR04h},
			{ID: "R04i", Floor: 10, Doc: "every option constructor stores its own argument, unmodified, into the Options field it is named after (and nothing else)", Run: ruleR04i},
			{ID: "R04j", Floor: 1, Doc: "options mean what the caller configured: a field of v2.Options is assigned only by an option constructor's closure or by ApplyOptions' defaults — no constructor or method overrides an option on its own copy afterwards", Run: ruleR04j},
			{ID: "R04f", Floor: 3, Doc: "lookups answer only for a confirmed candidate and report not-found otherwise (= R07a)", Run: ruleR07a},
			{ID: "R04e", Floor: 3, Doc: "oversize CID: ShouldPut's non-false answers behind cidLen <= max; put paths write only behind err==nil && should", Run: ruleR04e},
			{ID: "R04k", Floor: 1, Doc: "a resumed store knows every block of the file: the rescan indexes each section it passes (= R12c)", Run: ruleR12c},
			{ID: "R04l", Floor: 2, Doc: "the defaults ApplyOptions fills in are the documented constants and nothing else: MaxIndexCidSize becomes DefaultMaxIndexCidSize (2 KiB) and IndexCodec the multihash-sorted codec, whatever the other options say", Run: ruleR04l},
			{ID: "R04m", Floor: 1, Doc: "the read-write store lists its keys from its index, never by scanning the payload through the embedded read-only store: its backing is not bounded at the end of the payload, so after FinalizeReadOnly a scan runs into the index bytes and lists a key that was never put", Run: ruleR04m},
			{ID: "R04n", Floor: 1, Doc: "views of the file are positioned at 0, at the pragma size (the header slot), or at an offset taken from the header: no NewOffsetReadSeeker / NewOffsetWriter / io.NewSectionReader of the library is given another constant — the payload a store reads must start where the store's writer put it (Header.DataOffset, which includes the data padding)", Run: ruleR04n},
			{ID: "R04o", Floor: 9, Doc: "a store does not verify on Get what Put never verified: only the verifying readers hash block contents (= R02a)", Run: ruleR02a},
			{ID: "R04p", Floor: 8, Doc: "a put writes the whole section: the framing routines write length prefix, CID and data unabridged (= R01b)", Run: ruleR01b},
			{ID: "R04q", Floor: 1, Doc: "methods that do not write to their receiver today stay so, sorting a slice of the receiver in place included (CarHeader.Matches compares, it does not reorder the caller's roots) (= R08o)", Run: ruleR08o},
			{ID: "R04r", Floor: 3, Doc: "an option value is compared where the pinned tree compares it: a relational comparison of an Options field (or of a parameter named after one) in a function that has none today applies a limit where it does not belong — MaxIndexCidSize is checked by ShouldPut after the identity rule, not before it", Run: ruleR04r},
			{ID: "R04s", Floor: 3, Doc: "a reopened store has the roots that are in the file: Resume refuses other roots before it touches anything (= R12a)", Run: ruleR12a},
			{ID: "R04t", Floor: 1, Doc: "the writable stores carry no new state from call to call: what a put, has or get answers follows from the archive and the pinned fields (= R08s)", Run: ruleR08s},
			{ID: "R04u", Floor: 1, Doc: "a block that need not be put does not end the batch: from the (false, nil) answer of ShouldPut, PutMany reaches no return without going round the loop", Run: ruleR04u},
			{ID: "R04w", Floor: 1, Doc: "an identity CID is one whose multihash code is IDENTITY, whatever its digest length: store.IsIdentity answers `Code == IDENTITY` and nothing else", Run: ruleR04w},
			{ID: "R04x", Floor: 1, Doc: "a section exactly at the size limit is read back like any other: the limit test is `>` (= R09b)", Run: ruleR09b},
			{ID: "R04y", Floor: 3, Doc: "a stored block is read back in full, empty blocks included: no single Read where the pinned tree has none (= R02q)", Run: ruleR02q},
			{ID: "R04z", Floor: 2, Doc: "concurrent Roots calls do not share a cursor: each reads through its own offset reader (= R07q)", Run: ruleR07q},
			{ID: "R04A", Floor: 2, Doc: "a key is indexed only once its section has been handed to the file: write, then index, per block (= R06a)", Run: ruleR06a},
			{ID: "R04B", Floor: 1, Doc: "PutMany asks the gate for every block of the batch: no round of the loop over the batch reaches the next round without passing store.ShouldPut — a shortcut in front of it (a batch-local set of keys already seen) decides by its own key, which is not the key the options ask for", Run: ruleR04B},
		},
	})
}

// granularity of an InsertionIndex predicate, derived from its iterator closure.
func predicateGranularity(c *Ctx, fn *ssa.Function) string {
	if len(fn.Params) < 2 {
		return "digest"
	}
	arg := fn.Params[1]
	gran := "digest"
	for _, cl := range fn.AnonFuncs {
		eachInstr(cl, func(in ssa.Instruction) {
			switch x := in.(type) {
			case *ssa.Call:
				f := calleeFunc(x.Common())
				if funcIs(f, "bytes", "", "Equal") {
					a, b := x.Call.Args[0], x.Call.Args[1]
					if (isRecordCidHash(a) && derivesFromParam(b, arg)) || (isRecordCidHash(b) && derivesFromParam(a, arg)) {
						if gran == "digest" {
							gran = "multihash"
						}
					}
				}
				if funcIs(f, pkgCid, "Cid", "Equals") {
					as := callArgs(x.Common())
					if (isRecordCid(as[0]) && derivesFromParam(as[1], arg)) || (isRecordCid(as[1]) && derivesFromParam(as[0], arg)) {
						gran = "cid"
					}
				}
			case *ssa.BinOp:
				if x.Op == token.EQL {
					if (isRecordCid(x.X) && derivesFromParam(x.Y, arg)) || (isRecordCid(x.Y) && derivesFromParam(x.X, arg)) {
						gran = "cid"
					}
				}
			}
		})
	}
	return gran
}

func isRecordCid(v ssa.Value) bool {
	for _, o := range origins(v, originOpts{}) {
		if o.Kind == "field" && o.Field != nil && o.Field.Name() == "Cid" && isNamed(o.Base.Type(), pkgIndex, "Record") {
			return true
		}
	}
	return false
}

func isRecordCidHash(v ssa.Value) bool {
	cl, _ := callOf(canon(v))
	if cl == nil || !funcIs(calleeFunc(cl.Common()), pkgCid, "Cid", "Hash") {
		return false
	}
	return isRecordCid(callArgs(cl.Common())[0])
}

func derivesFromParam(v ssa.Value, p *ssa.Parameter) bool {
	for _, o := range origins(v, originOpts{}) {
		if o.Kind == "param" && o.Val == ssa.Value(p) {
			return true
		}
	}
	return false
}

func boolParamEdges(fn *ssa.Function, p *ssa.Parameter, want bool) []Edge {
	return condEdges(fn, func(base ssa.Value) (bool, bool) {
		if canon(base) == ssa.Value(p) {
			return true, want
		}
		return false, false
	})
}

func ruleR04a(c *Ctx, r *Report) {
	gran := map[string]string{}
	for _, m := range []string{"HasExactCID", "HasMultihash", "Get", "GetAll"} {
		fn, err := c.Func(pkgIndex, "InsertionIndex", m)
		if err != nil {
			r.InfraFail("%v", err)
			return
		}
		gran[m] = predicateGranularity(c, fn)
	}
	for _, name := range []string{"ShouldPut", "Has"} {
		fn, err := c.Func(pkgStore, "", name)
		if err != nil {
			r.InfraFail("%v", err)
			continue
		}
		var whole *ssa.Parameter
		for i, p := range fn.Params {
			if optionFieldOfParam(fn, i) == "BlockstoreUseWholeCIDs" {
				whole = p
			}
		}
		if whole == nil {
			r.Undec("predicate@"+fnKey(fn), c.Pos(fn.Pos()), "signature changed: no parameter carrying Options.BlockstoreUseWholeCIDs found (matched by name)")
			continue
		}
		wholeTrue := boolParamEdges(fn, whole, true)
		wholeFalse := boolParamEdges(fn, whole, false)
		saw := map[string]bool{}
		bad := ""
		eachInstr(fn, func(in ssa.Instruction) {
			ci, ok := in.(*ssa.Call)
			if !ok {
				return
			}
			f := calleeFunc(ci.Common())
			if f == nil {
				return
			}
			if p, rn := recvTypeName(f); p != pkgIndex || rn != "InsertionIndex" {
				return
			}
			g, known := gran[f.Name()]
			if !known {
				g = "digest"
			}
			saw[g] = true
			switch g {
			case "cid":
				if reach(fn, nil, edgeSet(wholeTrue))[in.Block()] {
					bad = fmt.Sprintf("%s (whole-CID granularity) at %s is consulted outside the UseWholeCIDs branch", f.Name(), c.Pos(in.Pos()))
				}
			case "multihash":
				if reach(fn, nil, edgeSet(wholeFalse))[in.Block()] {
					bad = fmt.Sprintf("%s (multihash granularity) at %s is consulted outside the !UseWholeCIDs branch", f.Name(), c.Pos(in.Pos()))
				}
			default:
				bad = fmt.Sprintf("%s at %s matches by bare digest only (its iterator compares neither the CID nor the multihash with the key): two keys with equal digests under different hash codes are confused", f.Name(), c.Pos(in.Pos()))
			}
		})
		if bad == "" && (!saw["cid"] || !saw["multihash"]) {
			bad = "does not consult both a whole-CID predicate (UseWholeCIDs) and a multihash predicate (default)"
		}
		r.Check(bad == "", "predicate@"+fnKey(fn), c.Pos(fn.Pos()), "whole-CID branch -> cid-granular predicate, default branch -> multihash-granular predicate", bad)
	}
	for _, m := range []string{"HasExactCID", "HasMultihash"} {
		want := map[string]string{"HasExactCID": "cid", "HasMultihash": "multihash"}[m]
		r.Check(gran[m] == want, "granularity@v2/index.InsertionIndex."+m, "-", "iterator compares at "+want+" granularity", fmt.Sprintf("%s is expected to decide at %s granularity but its iterator only establishes %s granularity", m, want, gran[m]))
	}
	// call sites pass each option to the parameter that carries its name
	for _, fn := range c.RepoFuncs() {
		ord := 0
		eachInstr(fn, func(in ssa.Instruction) {
			ci, ok := in.(*ssa.Call)
			if !ok {
				return
			}
			f := calleeFunc(ci.Common())
			if !(funcIs(f, pkgStore, "", "ShouldPut") || funcIs(f, pkgStore, "", "Has")) {
				return
			}
			callee := c.Prog.FuncValue(f)
			if callee == nil {
				return
			}
			ord++
			key := fmt.Sprintf("option-args@%s#%s#%d", fnKey(fn), f.Name(), ord)
			bad := ""
			n := 0
			for i := range callee.Params {
				wf := optionFieldOfParam(callee, i)
				if wf == "" || i >= len(ci.Call.Args) {
					continue
				}
				n++
				if !loadsField(canon(ci.Call.Args[i]), modV2, "Options", wf) {
					bad = fmt.Sprintf("argument %d (parameter %s) of store.%s is not Options.%s", i+1, callee.Params[i].Name(), f.Name(), wf)
				}
			}
			if n == 0 {
				bad = "no option-carrying parameter recognised"
			}
			r.Check(bad == "", key, c.Pos(in.Pos()), fmt.Sprintf("%d option argument(s) match the parameters that carry their names", n), bad)
		})
	}
}

// optionFieldOfParam maps a parameter to the v2.Options field it carries, by
// name (case-insensitive, with or without the Blockstore prefix).
func optionFieldOfParam(fn *ssa.Function, i int) string {
	name := strings.ToLower(fn.Params[i].Name())
	for _, f := range []string{"MaxIndexCidSize", "StoreIdentityCIDs", "BlockstoreAllowDuplicatePuts", "BlockstoreUseWholeCIDs", "ZeroLengthSectionAsEOF", "MaxAllowedSectionSize", "MaxAllowedHeaderSize",
		"DataPadding", "IndexPadding", "IndexCodec", "WriteAsCarV1", "TrustedCAR", "MaxTraversalLinks"} {
		lf := strings.ToLower(f)
		if name == lf || name == strings.TrimPrefix(lf, "blockstore") {
			return f
		}
	}
	return ""
}

type methodSpec struct {
	pkg, recv, name string
	write           bool
}

var typestateMethods = []methodSpec{
	{pkgBS, "ReadOnly", "Has", false}, {pkgBS, "ReadOnly", "Get", false}, {pkgBS, "ReadOnly", "GetSize", false}, {pkgBS, "ReadOnly", "AllKeysChan", false},
	{pkgBS, "ReadWrite", "PutMany", true}, {pkgBS, "ReadWrite", "Has", false}, {pkgBS, "ReadWrite", "AllKeysChan", false}, {pkgBS, "ReadWrite", "finalizeReadOnlyWithoutMutex", false},
	{pkgStorage, "StorageCar", "Put", false}, {pkgStorage, "StorageCar", "Has", false}, {pkgStorage, "StorageCar", "GetStream", false}, {pkgStorage, "StorageCar", "Finalize", false},
	{pkgDeferred, "DeferredCarWriter", "Has", false}, {pkgDeferred, "DeferredCarWriter", "Put", false}, {pkgDeferred, "DeferredCarWriter", "Close", false},
}

var closedFlag = map[string][3]string{
	"ReadOnly": {pkgBS, "ReadOnly", "closed"}, "ReadWrite": {pkgBS, "ReadOnly", "closed"},
	"StorageCar": {pkgStorage, "StorageCar", "closed"}, "DeferredCarWriter": {pkgDeferred, "DeferredCarWriter", "closed"},
}

// sensitiveUses: calls that touch the index, a writer, or look a key up in the backing.
func sensitiveUses(c *Ctx, fn *ssa.Function) []ssa.Instruction {
	var out []ssa.Instruction
	for _, f := range withAnon(fn) {
		if f != fn {
			// closures started by this method inherit its gate: their creation site is what matters
			continue
		}
		eachInstr(f, func(in ssa.Instruction) {
			ci, ok := in.(ssa.CallInstruction)
			if !ok {
				return
			}
			if _, _, isLock := lockOp(ci.Common()); isLock {
				return
			}
			cf := calleeFunc(ci.Common())
			if funcIs(cf, pkgStore, "", "FindCid") {
				out = append(out, in)
				return
			}
			for _, a := range callArgs(ci.Common()) {
				if _, _, ok := guardedPointee(a); ok || isBackingLoad(a) {
					out = append(out, in)
					return
				}
			}
			// helpers of the same type that do the touching for us
			if sc := staticTarget(ci.Common()); sc != nil && (sc.Signature.Recv() != nil || actsOnReceiverOf(sc, fn)) && sc.Pkg == fn.Pkg && !isExportedEntry(sc) {
				if len(sensitiveUsesShallow(sc)) > 0 || storesGuardedField(sc) {
					out = append(out, in)
				}
			}
		})
		// goroutines / callbacks created here that touch guarded state
		eachInstr(f, func(in ssa.Instruction) {
			if mc, ok := in.(*ssa.MakeClosure); ok {
				if len(sensitiveUsesShallow(mc.Fn.(*ssa.Function))) > 0 {
					out = append(out, in)
				}
			}
		})
	}
	return out
}

// actsOnReceiverOf: sc is a plain function whose first parameter has the receiver type of fn (a
// helper method written as a function).
func actsOnReceiverOf(sc, fn *ssa.Function) bool {
	if fn.Signature.Recv() == nil || sc.Signature.Recv() != nil || sc.Signature.Params().Len() == 0 {
		return false
	}
	a, b := namedOf(sc.Signature.Params().At(0).Type()), namedOf(fn.Signature.Recv().Type())
	return a != nil && b != nil && a.Obj() == b.Obj()
}

// isBackingLoad: the value is the backing reader of a store (payload window).
func isBackingLoad(v ssa.Value) bool {
	v = canon(v)
	return loadsField(v, pkgBS, "ReadOnly", "backing") || loadsField(v, pkgStorage, "StorageCar", "reader")
}

// storesGuardedField: the helper assigns a guarded field (lazy initialisation).
func storesGuardedField(fn *ssa.Function) bool {
	found := false
	eachInstr(fn, func(in ssa.Instruction) {
		if st, ok := in.(*ssa.Store); ok {
			if fa, ok := st.Addr.(*ssa.FieldAddr); ok {
				n := namedOf(fa.X.Type())
				fv := fieldVar(fa.X.Type(), fa.Field)
				if n != nil && fv != nil && n.Obj().Pkg() != nil {
					if _, ok := guards.values[fieldID{n.Obj().Pkg().Path(), n.Obj().Name(), fv.Name()}]; ok {
						found = true
					}
				}
			}
		}
	})
	return found
}

func sensitiveUsesShallow(fn *ssa.Function) []ssa.Instruction {
	var out []ssa.Instruction
	for _, f := range withAnon(fn) {
		eachInstr(f, func(in ssa.Instruction) {
			ci, ok := in.(ssa.CallInstruction)
			if !ok {
				return
			}
			if _, _, isLock := lockOp(ci.Common()); isLock {
				return
			}
			if funcIs(calleeFunc(ci.Common()), pkgStore, "", "FindCid") {
				out = append(out, in)
				return
			}
			for _, a := range callArgs(ci.Common()) {
				if _, _, ok := guardedPointee(a); ok || isBackingLoad(a) {
					out = append(out, in)
					return
				}
			}
		})
	}
	return out
}

func ruleR04b(c *Ctx, r *Report) {
	autoGuard(c)
	for _, m := range typestateMethods {
		fn, err := c.Func(m.pkg, m.recv, m.name)
		if err != nil {
			r.InfraFail("%v", err)
			continue
		}
		key := "closed-gate@" + fnKey(fn)
		cf := closedFlag[m.recv]
		notClosed := condEdges(fn, matchFieldCond(cf[0], cf[1], cf[2], false))
		uses := sensitiveUses(c, fn)
		if len(uses) == 0 {
			r.Undec(key, c.Pos(fn.Pos()), "no use of index/writer/backing found in this method: the rule cannot see what it is supposed to gate")
			continue
		}
		if len(notClosed) == 0 {
			r.Viol(key, c.Pos(fn.Pos()), "the method never tests the closed flag but uses the index/writer/backing")
			continue
		}
		bad := ""
		reachable := reach(fn, nil, edgeSet(notClosed))
		for _, u := range uses {
			if reachable[u.Block()] {
				bad = fmt.Sprintf("use at %s is reachable without the not-closed outcome of the closed flag test", c.Pos(u.Pos()))
			}
		}
		if bad == "" && m.write {
			notFin := condEdges(fn, matchFieldCond(pkgBS, "ReadWrite", "finalized", false))
			if len(notFin) == 0 {
				bad = "write method never tests the finalized flag"
			} else {
				rr := reach(fn, nil, edgeSet(notFin))
				for _, u := range uses {
					if rr[u.Block()] {
						bad = fmt.Sprintf("write at %s is reachable without the not-finalized outcome", c.Pos(u.Pos()))
					}
				}
			}
		}
		r.Check(bad == "", key, c.Pos(fn.Pos()), fmt.Sprintf("%d use(s) of index/writer/backing all behind !closed%s", len(uses), map[bool]string{true: " and !finalized", false: ""}[m.write]), bad)
	}
}

// storesTrueTo returns the stores of constant true to field pkg.typ.name in fn and,
// transitively, in same-package static callees that do so on all their paths.
func closingInstrs(c *Ctx, fn *ssa.Function, flag [3]string, depth int) []ssa.Instruction {
	var out []ssa.Instruction
	alt := [3]string{pkgBS, "ReadWrite", "finalized"}
	eachInstr(fn, func(in ssa.Instruction) {
		switch x := in.(type) {
		case *ssa.Store:
			if fa, ok := x.Addr.(*ssa.FieldAddr); ok && fieldAddrIs(fa, flag[0], flag[1], flag[2]) {
				if b, ok := constBool(x.Val); ok && b {
					out = append(out, in)
				}
			}
		case *ssa.Call:
			if depth < 3 {
				if sc := staticTarget(x.Common()); sc != nil && sc.Blocks != nil && sc.Pkg == fn.Pkg && sc != fn {
					if closesOnAllPaths(c, sc, flag, depth+1, nil) {
						out = append(out, in)
					} else if establishedBefore(c, fn, x, [][3]string{alt, flag}) && closesOnAllPaths(c, sc, flag, depth+1, &alt) {
						// the callee may leave early when `finalized` is false, but an earlier
						// call in this function established finalized || closed
						out = append(out, in)
					}
				}
			}
		}
	})
	return out
}

// closesOnAllPaths: every return of fn is preceded by a closing instruction or sits
// behind the already-closed outcome.
func closesOnAllPaths(c *Ctx, fn *ssa.Function, flag [3]string, depth int, assumeAltOrClosed *[3]string) bool {
	closers := closingInstrs(c, fn, flag, depth)
	if len(closers) == 0 {
		return false
	}
	return len(unclosedReturnsAssuming(fn, closers, flag, assumeAltOrClosed)) == 0
}

// establishedBefore: some call that dominates `at` in fn goes to a function every
// return of which has one of the flags set to true (stored, or tested true).
func establishedBefore(c *Ctx, fn *ssa.Function, at ssa.Instruction, flags [][3]string) bool {
	ok := false
	eachInstr(fn, func(in ssa.Instruction) {
		ci, isCall := in.(*ssa.Call)
		if !isCall || in == at {
			return
		}
		sc := staticTarget(ci.Common())
		if sc == nil || sc.Blocks == nil || sc.Pkg != fn.Pkg {
			return
		}
		if !(in.Block() == at.Block() && instrIndex(in) < instrIndex(at)) && !(in.Block() != at.Block() && in.Block().Dominates(at.Block())) {
			return
		}
		if establishesOneOf(sc, flags) {
			ok = true
		}
	})
	return ok
}

func establishesOneOf(fn *ssa.Function, flags [][3]string) bool {
	cut := EdgeSet{}
	setBlocks := map[*ssa.BasicBlock][]ssa.Instruction{}
	for _, fl := range flags {
		eachInstr(fn, func(in ssa.Instruction) {
			if st, ok := in.(*ssa.Store); ok {
				if fa, ok := st.Addr.(*ssa.FieldAddr); ok && fieldAddrIs(fa, fl[0], fl[1], fl[2]) {
					if b, ok := constBool(st.Val); ok && b {
						setBlocks[in.Block()] = append(setBlocks[in.Block()], in)
						for i := range in.Block().Succs {
							cut[Edge{From: in.Block(), Succ: i}] = true
						}
					}
				}
			}
		})
		for _, e := range condEdges(fn, matchFieldCond(fl[0], fl[1], fl[2], true)) {
			cut[e] = true
		}
	}
	reachable := reach(fn, nil, cut)
	for _, ret := range returnsOf(fn) {
		if !reachable[ret.Block()] {
			continue
		}
		ok := false
		for _, si := range setBlocks[ret.Block()] {
			if instrIndex(si) < instrIndex(ret) {
				ok = true
			}
		}
		if !ok {
			return false
		}
	}
	return true
}

func unclosedReturns(fn *ssa.Function, closers []ssa.Instruction, flag [3]string) []*ssa.Return {
	return unclosedReturnsAssuming(fn, closers, flag, nil)
}

func unclosedReturnsAssuming(fn *ssa.Function, closers []ssa.Instruction, flag [3]string, assumeAltOrClosed *[3]string) []*ssa.Return {
	// blocks containing a closer cut all their outgoing paths: model by removing the block's out-edges
	cut := EdgeSet{}
	closerBlocks := map[*ssa.BasicBlock]bool{}
	for _, ci := range closers {
		closerBlocks[ci.Block()] = true
		for i := range ci.Block().Succs {
			cut[Edge{From: ci.Block(), Succ: i}] = true
		}
	}
	// the already-closed outcome also establishes closed == true
	for _, e := range condEdges(fn, matchFieldCond(flag[0], flag[1], flag[2], true)) {
		cut[e] = true
	}
	if assumeAltOrClosed != nil {
		// (alt || closed) holds on entry: where alt is found false, closed is true
		a := *assumeAltOrClosed
		for _, e := range condEdges(fn, matchFieldCond(a[0], a[1], a[2], false)) {
			cut[e] = true
		}
	}
	reachable := reach(fn, nil, cut)
	var out []*ssa.Return
	for _, ret := range returnsOf(fn) {
		if !reachable[ret.Block()] {
			continue
		}
		if closerBlocks[ret.Block()] {
			// closer and return in the same block: closed if the closer comes first
			ok := false
			for _, ci := range closers {
				if ci.Block() == ret.Block() && instrIndex(ci) < instrIndex(ret) {
					ok = true
				}
			}
			if ok {
				continue
			}
		}
		out = append(out, ret)
	}
	return out
}

type finalizerSpec struct {
	pkg, recv, name string
	flag            [3]string
}

var finalizers = []finalizerSpec{
	{pkgBS, "ReadWrite", "Finalize", closedFlag["ReadWrite"]},
	{pkgBS, "ReadOnly", "Close", closedFlag["ReadOnly"]},
	{pkgStorage, "StorageCar", "Finalize", closedFlag["StorageCar"]},
	{pkgDeferred, "DeferredCarWriter", "Close", closedFlag["DeferredCarWriter"]},
}

func checkFinalizerCloses(c *Ctx, r *Report, f finalizerSpec) {
	fn, err := c.Func(f.pkg, f.recv, f.name)
	if err != nil {
		r.InfraFail("%v", err)
		return
	}
	key := "finalizer-closes@" + fnKey(fn)
	closers := closingInstrs(c, fn, f.flag, 0)
	if len(closers) == 0 {
		r.Viol(key, c.Pos(fn.Pos()), "the finalizer never sets the closed flag (directly or through a helper that does so on all its paths)")
		return
	}
	bad := ""
	for _, ret := range unclosedReturns(fn, closers, f.flag) {
		if why, ok := notWritableExit(fn, ret); ok {
			r.Exempt(key+"#exit-"+why, c.Pos(ret.Pos()), "return taken only when the store is not a writable store ("+why+"); C04 speaks of writable stores")
			continue
		}
		bad = fmt.Sprintf("the return at %s can be reached without the store having been marked closed: after this call lookups and writes keep succeeding", c.Pos(ret.Pos()))
	}
	r.Check(bad == "", key, c.Pos(fn.Pos()), "every return leaves closed == true", bad)
}

func ruleR04c(c *Ctx, r *Report) {
	for _, f := range finalizers {
		checkFinalizerCloses(c, r, f)
	}
	// ReadWrite.Discard delegates to ReadOnly.Close
	fn, err := c.Func(pkgBS, "ReadWrite", "Discard")
	if err != nil {
		r.InfraFail("%v", err)
		return
	}
	n := len(callsToFunc(fn, pkgBS, "ReadOnly", "Close"))
	r.Check(n == 1, "finalizer-closes@"+fnKey(fn), c.Pos(fn.Pos()), "delegates to ReadOnly.Close", "Discard no longer delegates to ReadOnly.Close")
}

// notWritableExit: the return is reachable only through a failed comma-ok type
// assertion or a nil test of the writer field (the store is read-only / has no WriterAt).
func notWritableExit(fn *ssa.Function, ret *ssa.Return) (string, bool) {
	edges := condEdges(fn, func(base ssa.Value) (bool, bool) {
		// ok result of a TypeAssert
		if ex, isEx := base.(*ssa.Extract); isEx && ex.Index == 1 {
			if _, isTA := ex.Tuple.(*ssa.TypeAssert); isTA {
				return true, false
			}
		}
		if b, isB := base.(*ssa.BinOp); isB && (b.Op == token.EQL || b.Op == token.NEQ) {
			var o ssa.Value
			if isNilConst(b.Y) {
				o = b.X
			} else if isNilConst(b.X) {
				o = b.Y
			}
			if o != nil && loadsField(canon(o), pkgStorage, "StorageCar", "writer") {
				return true, b.Op == token.EQL
			}
		}
		return false, false
	})
	if len(edges) == 0 {
		return "", false
	}
	if reach(fn, nil, edgeSet(edges))[ret.Block()] {
		return "", false
	}
	return "type-assertion-failed-or-no-writer", true
}

func ruleR04d(c *Ctx, r *Report) {
	type site struct {
		pkg, recv, name string
		param           int // >=0: StoreIdentityCIDs is this parameter; -1: Options field
	}
	for _, s := range []site{
		{pkgBS, "ReadOnly", "Has", -1}, {pkgBS, "ReadOnly", "Get", -1},
		{pkgStorage, "StorageCar", "Has", -1}, {pkgStorage, "StorageCar", "GetStream", -1},
		{pkgStore, "", "Has", 3}, {pkgStore, "", "ShouldPut", 3},
	} {
		fn, err := c.Func(s.pkg, s.recv, s.name)
		if err != nil {
			r.InfraFail("%v", err)
			continue
		}
		key := "identity-shortcut@" + fnKey(fn)
		calls := callsToFunc(fn, pkgStore, "", "IsIdentity")
		if len(calls) == 0 {
			r.Viol(key, c.Pos(fn.Pos()), "no identity short-circuit at all: identity CIDs are no longer answered per IdStore rules when StoreIdentityCIDs is off")
			continue
		}
		var off []Edge
		if s.param >= 0 {
			var sp *ssa.Parameter
			for i, p := range fn.Params {
				if optionFieldOfParam(fn, i) == "StoreIdentityCIDs" {
					sp = p
				}
			}
			if sp == nil {
				r.Undec(key, c.Pos(fn.Pos()), "signature changed: no parameter carrying Options.StoreIdentityCIDs (matched by name)")
				continue
			}
			off = boolParamEdges(fn, sp, false)
		} else {
			off = condEdges(fn, matchFieldCond(modV2, "Options", "StoreIdentityCIDs", false))
		}
		if len(off) == 0 {
			r.Viol(key, c.Pos(calls[0].Pos()), "identity short-circuit ignores the StoreIdentityCIDs option")
			continue
		}
		reachable := reach(fn, nil, edgeSet(off))
		bad := ""
		for _, ci := range calls {
			if reachable[ci.Block()] {
				bad = fmt.Sprintf("IsIdentity short-circuit at %s is taken even when StoreIdentityCIDs is on: stored identity blocks would be answered without consulting the index", c.Pos(ci.Pos()))
			}
		}
		r.Check(bad == "", key, c.Pos(calls[0].Pos()), "short-circuit only behind !StoreIdentityCIDs", bad)
	}
	r.Exempt("identity-shortcut@v2/blockstore.ReadOnly.GetSize", "-", "documented and pinned by TestReadOnly: GetSize answers identity CIDs with len(digest) regardless of the option")
}

func ruleR04e(c *Ctx, r *Report) {
	fn, err := c.Func(pkgStore, "", "ShouldPut")
	if err != nil {
		r.InfraFail("%v", err)
		return
	}
	key := "cidsize-gate@" + fnKey(fn)
	var cidp, maxp *ssa.Parameter
	for i, p := range fn.Params {
		if optionFieldOfParam(fn, i) == "MaxIndexCidSize" {
			maxp = p
		}
		if n := namedOf(p.Type()); n != nil && n.Obj().Name() == "Cid" && n.Obj().Pkg() != nil && strings.HasSuffix(n.Obj().Pkg().Path(), "go-cid") {
			cidp = p
		}
	}
	if cidp == nil || maxp == nil {
		r.Undec(key, c.Pos(fn.Pos()), "signature changed: no cid.Cid parameter or no parameter carrying Options.MaxIndexCidSize (matched by name)")
		return
	}
	env := &AffEnv{}
	isLen := func(v ssa.Value) bool {
		a := env.of(canon(v))
		return a.equal(affAtom("cidlen(param:"+cidp.Name()+")")) || a.equal(affAtom("len("+env.valName(v)+")")) && false
	}
	le := cmpEdges(fn, isLen, func(v ssa.Value) bool { return canon(v) == ssa.Value(maxp) }, "le")
	if len(le) == 0 {
		r.Viol(key, c.Pos(fn.Pos()), "ShouldPut does not compare the CID's encoded length with maxIndexCidSize")
	} else {
		reachable := reach(fn, nil, edgeSet(le))
		bad := ""
		for _, ret := range returnsOf(fn) {
			if b, ok := constBool(ret.Results[0]); ok && !b {
				continue
			}
			if reachable[ret.Block()] {
				bad = fmt.Sprintf("return at %s can answer 'put it' (or skip as duplicate) without the CID length having been checked against MaxIndexCidSize", c.Pos(ret.Pos()))
			}
		}
		r.Check(bad == "", key, c.Pos(fn.Pos()), "all non-false answers behind len(c.Bytes()) <= maxIndexCidSize", bad)
	}
	// no mutation in ShouldPut: only read-only index predicates are called on idx
	{
		bad := ""
		eachInstr(fn, func(in ssa.Instruction) {
			if ci, ok := in.(*ssa.Call); ok {
				f := calleeFunc(ci.Common())
				if f != nil && mutatingCallee[f.Name()] {
					bad = "ShouldPut calls mutating " + funcKey(f) + " at " + c.Pos(in.Pos())
				}
			}
		})
		r.Check(bad == "", "pure@"+fnKey(fn), c.Pos(fn.Pos()), "no mutating callee", bad)
	}
	// put paths
	for _, m := range []methodSpec{{pkgBS, "ReadWrite", "PutMany", true}, {pkgStorage, "StorageCar", "Put", true}} {
		pf, err := c.Func(m.pkg, m.recv, m.name)
		if err != nil {
			r.InfraFail("%v", err)
			continue
		}
		k := "put-gate@" + fnKey(pf)
		sp := callsToFunc(pf, pkgStore, "", "ShouldPut")
		if len(sp) != 1 {
			r.Viol(k, c.Pos(pf.Pos()), fmt.Sprintf("expected exactly one store.ShouldPut decision, found %d", len(sp)))
			continue
		}
		should := extractOf(sp[0].Value(), 0)
		var sinks []ssa.Instruction
		sinks = append(sinks, toInstrs(callsToFunc(pf, pkgV1Util, "", "LdWrite"))...)
		sinks = append(sinks, toInstrs(callsToFunc(pf, pkgIndex, "InsertionIndex", "InsertNoReplace"))...)
		if len(sinks) < 2 || should == nil {
			r.Undec(k, c.Pos(pf.Pos()), "LdWrite/InsertNoReplace or the decision value not found")
			continue
		}
		errNil := condEdges(pf, errNilCond(errOfCall(sp[0]), true))
		shouldTrue := condEdges(pf, func(base ssa.Value) (bool, bool) {
			if canon(base) == should {
				return true, true
			}
			return false, false
		})
		bad := ""
		if len(errNil) == 0 || len(shouldTrue) == 0 {
			bad = "the put path does not branch on both results of ShouldPut"
		} else {
			r1 := reach(pf, nil, edgeSet(errNil))
			r2 := reach(pf, nil, edgeSet(shouldTrue))
			for _, s := range sinks {
				if r1[s.Block()] {
					bad = fmt.Sprintf("write/insert at %s reachable although ShouldPut returned an error (e.g. CID too large)", c.Pos(s.Pos()))
				}
				if r2[s.Block()] {
					bad = fmt.Sprintf("write/insert at %s reachable although ShouldPut said no", c.Pos(s.Pos()))
				}
			}
		}
		r.Check(bad == "", k, c.Pos(pf.Pos()), "LdWrite and InsertNoReplace only behind err == nil and should == true", bad)
	}
}

func toInstrs(cs []ssa.CallInstruction) []ssa.Instruction {
	var out []ssa.Instruction
	for _, c := range cs {
		out = append(out, c)
	}
	return out
}

var _ = types.Typ

// ruleR04g: the bytes Get/GetSize answer for an identity CID are IsIdentity's digest.
func ruleR04g(c *Ctx, r *Report) {
	fn, err := c.Func(pkgStore, "", "IsIdentity")
	if err != nil {
		r.InfraFail("%v", err)
		return
	}
	key := "identity-digest@" + fnKey(fn)
	bad, undec, n := "", "", 0
	for _, ret := range returnsOf(fn) {
		if len(ret.Results) < 2 {
			continue
		}
		if b, ok := constBool(ret.Results[1]); ok && !b {
			continue
		}
		for _, o := range origins(ret.Results[0], originOpts{}) {
			switch {
			case o.Kind == "const":
			case o.Kind == "field" && o.Field != nil && o.Field.Name() == "Digest" && o.Field.Pkg() != nil && strings.HasSuffix(o.Field.Pkg().Path(), "go-multihash"):
				n++
			case o.Kind == "call" && o.Fn != nil && o.Fn.Name() == "Hash":
				bad = fmt.Sprintf("the digest returned at %s is a slice of the raw multihash bytes: the <code><length> prefix is two varints, so a fixed offset is wrong for digests of 128 bytes and more (Get would return the wrong bytes)", c.Pos(ret.Pos()))
			default:
				undec = fmt.Sprintf("the digest returned at %s comes from %s, which is not recognised as a multihash decoder", c.Pos(ret.Pos()), o.Kind)
			}
		}
	}
	switch {
	case bad != "":
		r.Viol(key, c.Pos(fn.Pos()), bad)
	case undec != "" || n == 0:
		r.Undec(key, c.Pos(fn.Pos()), undec+" (no DecodedMultihash.Digest origin found)")
	default:
		r.Hold(key, c.Pos(fn.Pos()), "digest = multihash.Decode(key.Hash()).Digest")
	}
}

func ruleR04h(c *Ctx, r *Report) {
	n := 0
	for _, fn := range c.RepoFuncs() {
		for _, g := range withAnon(fn) {
			ord := map[string]int{}
			eachInstr(g, func(in ssa.Instruction) {
				ci, ok := in.(ssa.CallInstruction)
				if !ok {
					return
				}
				callee := staticTarget(ci.Common())
				if callee == nil || len(callee.Blocks) == 0 || callee.Pkg == nil {
					return
				}
				args := ci.Common().Args
				matched := 0
				bad := ""
				for i := range callee.Params {
					wf := optionFieldOfParam(callee, i)
					if wf == "" || i >= len(args) {
						continue
					}
					fv, _ := fieldOfLoad(canon(args[i]))
					if fv == nil || !isOptionsField(fv) {
						continue
					}
					matched++
					if fv.Name() != wf {
						bad = fmt.Sprintf("parameter %s of %s receives Options.%s", callee.Params[i].Name(), fnKey(callee), fv.Name())
					}
				}
				if matched == 0 {
					return
				}
				n++
				base := fnKey(g) + "#" + callee.Name()
				ord[base]++
				r.Check(bad == "", fmt.Sprintf("option-plumbing@%s#%d", base, ord[base]), c.Pos(in.Pos()), fmt.Sprintf("%d option argument(s) reach the parameters named after them", matched), bad)
			})
		}
	}
	r.Count("call sites passing Options fields to option-named parameters", n)
}

func isOptionsField(fv *types.Var) bool {
	return fv.Pkg() != nil && fv.Pkg().Path() == modV2 && fv.IsField() && optionsFieldNames()[fv.Name()]
}

func optionsFieldNames() map[string]bool {
	return map[string]bool{"DataPadding": true, "IndexPadding": true, "IndexCodec": true, "ZeroLengthSectionAsEOF": true, "MaxIndexCidSize": true,
		"StoreIdentityCIDs": true, "BlockstoreAllowDuplicatePuts": true, "BlockstoreUseWholeCIDs": true, "MaxTraversalLinks": true, "WriteAsCarV1": true,
		"TraversalPrototypeChooser": true, "TrustedCAR": true, "MaxAllowedHeaderSize": true, "MaxAllowedSectionSize": true}
}

func ruleR04i(c *Ctx, r *Report) {
	p := c.Pkgs[modV2]
	if p == nil {
		r.InfraFail("package %s not loaded", modV2)
		return
	}
	norm := func(s string) string {
		s = strings.ToLower(s)
		for _, pre := range []string{"blockstore", "with", "use"} {
			s = strings.TrimPrefix(s, pre)
		}
		return s
	}
	sc := p.Types.Scope()
	for _, name := range sc.Names() {
		f, ok := sc.Lookup(name).(*types.Func)
		if !ok || !f.Exported() {
			continue
		}
		sig := f.Type().(*types.Signature)
		if sig.Recv() != nil || sig.Results().Len() != 1 || sig.Params().Len() != 1 {
			continue
		}
		if n := namedOf(sig.Results().At(0).Type()); n == nil || n.Obj().Name() != "Option" || n.Obj().Pkg().Path() != modV2 {
			continue
		}
		fn := c.Prog.FuncValue(f)
		if fn == nil || len(closuresOf(fn)) != 1 {
			continue
		}
		key := "option-constructor@" + fnKey(fn)
		g := closuresOf(fn)[0]
		var stores []*ssa.Store
		live := reach(g, nil, nil) // constant conditions (a captured selector flag) decide their branch
		eachInstr(g, func(in ssa.Instruction) {
			if st, ok := in.(*ssa.Store); ok && live[st.Block()] {
				if _, isFA := st.Addr.(*ssa.FieldAddr); isFA {
					stores = append(stores, st)
				}
			}
		})
		bad := ""
		switch {
		case len(stores) != 1:
			bad = fmt.Sprintf("stores %d Options fields, expected exactly one", len(stores))
		default:
			fa := stores[0].Addr.(*ssa.FieldAddr)
			fv := fieldVar(fa.X.Type(), fa.Field)
			val := canon(stores[0].Val)
			var src ssa.Value
			if fvr, ok := val.(*ssa.FreeVar); ok {
				src = freeVarBinding(fvr)
			}
			if ld, ok := val.(*ssa.UnOp); ok && ld.Op == token.MUL {
				if fvr, ok := ld.X.(*ssa.FreeVar); ok {
					if b := freeVarBinding(fvr); b != nil {
						if sts := storesTo(b); len(sts) == 1 {
							src = sts[0].Val
						}
					}
				}
			}
			switch {
			case fv == nil:
				bad = "stored field not resolved"
			case norm(fv.Name()) != norm(name):
				bad = fmt.Sprintf("%s stores Options.%s: the option configures a different field than the one it is named after", name, fv.Name())
			case src == nil || canon(src) != ssa.Value(fn.Params[0]):
				bad = fmt.Sprintf("%s does not store its own argument unmodified into Options.%s (negated, constant or taken from elsewhere)", name, fv.Name())
			}
		}
		r.Check(bad == "", key, c.Pos(fn.Pos()), "stores its argument into the field it is named after", bad)
	}
}

func ruleR04j(c *Ctx, r *Report) {
	n := 0
	var bad []string
	for _, fn := range c.RepoFuncs() {
		eachInstr(fn, func(in ssa.Instruction) {
			st, ok := in.(*ssa.Store)
			if !ok {
				return
			}
			fa, ok := st.Addr.(*ssa.FieldAddr)
			rootOpts := ok && isNamed(derefType(fa.X.Type()), modRoot, "options")
			if !ok || !isNamed(derefType(fa.X.Type()), modV2, "Options") && !rootOpts {
				return
			}
			n++
			root := rootFuncOf(fn)
			okSite := false
			if rootOpts {
				// the root module: the literal in applyOptions, and the closures its option constructors return
				if g, isG := fa.X.(*ssa.Global); isG && globalFieldInit[g] != nil {
					okSite = true // the literal of a package-level value that nothing writes afterwards
				}
				if o, isF := root.Object().(*types.Func); isF {
					if funcIs(o, modRoot, "", "applyOptions") {
						okSite = true
					}
					sig := o.Type().(*types.Signature)
					if sig.Results().Len() == 1 {
						if nt := namedOf(sig.Results().At(0).Type()); nt != nil && nt.Obj().Pkg() != nil && nt.Obj().Pkg().Path() == modRoot && nt.Obj().Name() == "Option" {
							okSite = fn.Parent() != nil
						}
					}
				}
				if !okSite {
					fv := fieldVar(fa.X.Type(), fa.Field)
					bad = append(bad, fmt.Sprintf("%s assigns options.%s of the root module at %s", fnKey(fn), fv.Name(), c.Pos(st.Pos())))
				}
				return
			}
			if g, isG := fa.X.(*ssa.Global); isG && globalFieldInit[g] != nil {
				okSite = true // the literal of a package-level value that nothing writes afterwards
			}
			if o, isF := root.Object().(*types.Func); isF {
				if funcIs(o, modV2, "", "ApplyOptions") {
					okSite = true
				}
				sig := o.Type().(*types.Signature)
				if sig.Results().Len() == 1 {
					if nt := namedOf(sig.Results().At(0).Type()); nt != nil && nt.Obj().Pkg() != nil && nt.Obj().Pkg().Path() == modV2 && strings.HasSuffix(nt.Obj().Name(), "Option") {
						okSite = fn.Parent() != nil // inside the returned closure
					}
				}
			}
			if !okSite {
				fv := fieldVar(fa.X.Type(), fa.Field)
				bad = append(bad, fmt.Sprintf("%s assigns Options.%s at %s", fnKey(fn), fv.Name(), c.Pos(st.Pos())))
			}
		})
	}
	sort.Strings(bad)
	r.Check(len(bad) == 0, "options-assigned-only-by-options@repository", "-", fmt.Sprintf("%d assignments to Options fields, all in option constructors or ApplyOptions", n),
		strings.Join(bad, "; ")+": the value the caller configured is silently replaced for part of the API (two readers of one archive then disagree)")
}

func ruleR04l(c *Ctx, r *Report) {
	fn, err := c.Func(modV2, "", "ApplyOptions")
	if err != nil {
		r.InfraFail("%v", err)
		return
	}
	for _, d := range []struct {
		field string
		want  int64
	}{{"MaxIndexCidSize", 2 << 10}, {"IndexCodec", 0x0401}} {
		key := "default-value@v2.ApplyOptions#" + d.field
		n, bad := 0, ""
		eachInstr(fn, func(in ssa.Instruction) {
			st, ok := in.(*ssa.Store)
			if !ok {
				return
			}
			fa, ok := st.Addr.(*ssa.FieldAddr)
			if !ok || !fieldAddrIs(fa, modV2, "Options", d.field) {
				return
			}
			n++
			if k, isK := constInt(st.Val); !isK || k != d.want {
				bad = fmt.Sprintf("Options.%s is set at %s to something other than its documented default (%d)", d.field, c.Pos(st.Pos()), d.want)
			}
		})
		if n == 0 {
			bad = "no default is filled in for Options." + d.field
		}
		r.Check(bad == "", key, c.Pos(fn.Pos()), fmt.Sprintf("only the constant %d is ever filled in", d.want), bad)
	}
}

func ruleR04m(c *Ctx, r *Report) {
	fn, err := c.Func(pkgBS, "ReadWrite", "AllKeysChan")
	if err != nil {
		r.InfraFail("%v", err)
		return
	}
	key := "keys-from-index@" + fnKey(fn)
	bad := ""
	for _, g := range withAnon(fn) {
		for _, ci := range callsToFunc(g, pkgBS, "ReadOnly", "AllKeysChan") {
			bad = fmt.Sprintf("ReadWrite.AllKeysChan hands over to the read-only payload scan at %s", c.Pos(ci.Pos()))
		}
	}
	n := 0
	for _, g := range withAnon(fn) {
		eachInstr(g, func(in ssa.Instruction) {
			if ci, ok := in.(ssa.CallInstruction); ok {
				if f := calleeFunc(ci.Common()); f != nil && (f.Name() == "ForEachCid" || f.Name() == "ForEach") {
					n++
				}
			}
		})
	}
	if bad == "" && n == 0 {
		bad = "the keys are not taken from the insertion index (no ForEachCid)"
	}
	r.Check(bad == "", key, c.Pos(fn.Pos()), "keys enumerated from the index", bad)
}

// ---- R04B: every block of a batch passes the gate ---------------------------------------------------

func ruleR04B(c *Ctx, r *Report) {
	fn, err := c.Func(pkgBS, "ReadWrite", "PutMany")
	if err != nil {
		r.InfraFail("%v", err)
		return
	}
	key := "every-block-gated@" + fnKey(fn)
	gates := callsToFunc(fn, pkgStore, "", "ShouldPut")
	r.Count("calls of store.ShouldPut in PutMany", len(gates))
	if len(gates) != 1 {
		r.Undec(key, c.Pos(fn.Pos()), fmt.Sprintf("expected one call of store.ShouldPut in PutMany, found %d", len(gates)))
		return
	}
	head, skips, _ := roundWithout(gates[0])
	if head == nil {
		r.Undec(key, c.Pos(gates[0].Pos()), "store.ShouldPut does not stand in a loop: how the batch is enumerated is not recognised")
		return
	}
	r.Check(!skips, key, c.Pos(gates[0].Pos()), "every round of the loop over the batch passes store.ShouldPut or leaves the function", "a round of the loop over the batch can reach the next round without store.ShouldPut (a `continue` in front of it): a block of the batch is left out by a test that is not the gate's — two blocks with one multihash and different codecs are one block to a set keyed by the hash and two blocks to a store opened with UseWholeCIDs; PutMany returns nil and the second is in neither the file nor the index")
}
