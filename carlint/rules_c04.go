package main

import (
	"fmt"
	"go/token"
	"go/types"

	"golang.org/x/tools/go/ssa"
)

func init() {
	register(PropertyDef{
		ID: "C04",
		Explanation: "Decided statically: (R04a) store.ShouldPut and store.Has consult index predicates of the same key granularity under the same option branch " +
			"(granularity is derived from what each InsertionIndex predicate's iterator actually compares: whole CID, multihash bytes, or bare digest), and " +
			"their 4 call sites pass the options by position; (R04b) in every lookup/write method of ReadOnly, ReadWrite, StorageCar and DeferredCarWriter " +
			"each use of the index, writer or backing lookup is behind the not-closed outcome of the closed flag (writes of ReadWrite also behind not-finalized); " +
			"(R04c) every return of a finalizer leaves the store closed (a store of true to the closed flag precedes it on all paths, or it is behind the " +
			"already-closed outcome), except the validated not-a-writable-store exits; (R04d) identity short-circuits in the methods documented to defer to " +
			"the index are behind !StoreIdentityCIDs; (R04e) ShouldPut answers anything but constant false only behind cidLen <= MaxIndexCidSize, performs no " +
			"mutation, and both put paths write/insert only behind (err == nil, should == true). NOT decided: equality of results with a map model over " +
			"operation histories, the LLRB multimap itself, exact bytes returned.",
		Assumptions: []string{"llrb.AscendGreaterOrEqual visits every item whose key is >= the pivot in order", "ReadOnly.GetSize answering identity CIDs unconditionally is documented behaviour (pinned by TestReadOnly)"},
		Rules: []RuleDef{
			{ID: "R04a", Floor: 2 + 2 + 4, Doc: "sibling predicate agreement between ShouldPut and Has by derived key granularity; positional option arguments at call sites", Run: ruleR04a},
			{ID: "R04b", Floor: 14, Doc: "typestate: index/writer/backing uses behind the not-closed (and not-finalized for writes) outcome", Run: ruleR04b},
			{ID: "R04c", Floor: 4, Doc: "finalizers leave the store closed on every return", Run: ruleR04c},
			{ID: "R04d", Floor: 6, Doc: "identity short-circuit only behind !StoreIdentityCIDs in Has/Get/GetStream/ShouldPut/store.Has", Run: ruleR04d},
			{ID: "R04f", Floor: 3, Doc: "lookups answer only for a confirmed candidate and report not-found otherwise (= R07a)", Run: ruleR07a},
			{ID: "R04e", Floor: 3, Doc: "oversize CID: ShouldPut's non-false answers behind cidLen <= max; put paths write only behind err==nil && should", Run: ruleR04e},
		},
	})
}

// granularity of an InsertionIndex predicate, derived from its iterator closure.
func predicateGranularity(c *Ctx, fn *ssa.Function) string {
	if len(fn.Params) < 2 {
		return "digest"
	}
	arg := fn.Params[1]
	gran := "digest"
	for _, cl := range fn.AnonFuncs {
		eachInstr(cl, func(in ssa.Instruction) {
			switch x := in.(type) {
			case *ssa.Call:
				f := calleeFunc(x.Common())
				if funcIs(f, "bytes", "", "Equal") {
					a, b := x.Call.Args[0], x.Call.Args[1]
					if (isRecordCidHash(a) && derivesFromParam(b, arg)) || (isRecordCidHash(b) && derivesFromParam(a, arg)) {
						if gran == "digest" {
							gran = "multihash"
						}
					}
				}
				if funcIs(f, pkgCid, "Cid", "Equals") {
					as := callArgs(x.Common())
					if (isRecordCid(as[0]) && derivesFromParam(as[1], arg)) || (isRecordCid(as[1]) && derivesFromParam(as[0], arg)) {
						gran = "cid"
					}
				}
			case *ssa.BinOp:
				if x.Op == token.EQL {
					if (isRecordCid(x.X) && derivesFromParam(x.Y, arg)) || (isRecordCid(x.Y) && derivesFromParam(x.X, arg)) {
						gran = "cid"
					}
				}
			}
		})
	}
	return gran
}

func isRecordCid(v ssa.Value) bool {
	for _, o := range origins(v, originOpts{}) {
		if o.Kind == "field" && o.Field != nil && o.Field.Name() == "Cid" && isNamed(o.Base.Type(), pkgIndex, "Record") {
			return true
		}
	}
	return false
}

func isRecordCidHash(v ssa.Value) bool {
	cl, _ := callOf(canon(v))
	if cl == nil || !funcIs(calleeFunc(cl.Common()), pkgCid, "Cid", "Hash") {
		return false
	}
	return isRecordCid(callArgs(cl.Common())[0])
}

func derivesFromParam(v ssa.Value, p *ssa.Parameter) bool {
	for _, o := range origins(v, originOpts{}) {
		if o.Kind == "param" && o.Val == ssa.Value(p) {
			return true
		}
	}
	return false
}

func boolParamEdges(fn *ssa.Function, p *ssa.Parameter, want bool) []Edge {
	return condEdges(fn, func(base ssa.Value) (bool, bool) {
		if canon(base) == ssa.Value(p) {
			return true, want
		}
		return false, false
	})
}

func ruleR04a(c *Ctx, r *Report) {
	gran := map[string]string{}
	for _, m := range []string{"HasExactCID", "HasMultihash", "Get", "GetAll"} {
		fn, err := c.Func(pkgIndex, "InsertionIndex", m)
		if err != nil {
			r.InfraFail("%v", err)
			return
		}
		gran[m] = predicateGranularity(c, fn)
	}
	for _, name := range []string{"ShouldPut", "Has"} {
		fn, err := c.Func(pkgStore, "", name)
		if err != nil {
			r.InfraFail("%v", err)
			continue
		}
		if len(fn.Params) != 6 {
			r.Undec("predicate@"+fnKey(fn), c.Pos(fn.Pos()), "signature changed: expected (idx, c, maxIndexCidSize, storeIdentityCIDs, allowDuplicatePuts, useWholeCIDs)")
			continue
		}
		whole := fn.Params[5]
		wholeTrue := boolParamEdges(fn, whole, true)
		wholeFalse := boolParamEdges(fn, whole, false)
		saw := map[string]bool{}
		bad := ""
		eachInstr(fn, func(in ssa.Instruction) {
			ci, ok := in.(*ssa.Call)
			if !ok {
				return
			}
			f := calleeFunc(ci.Common())
			if f == nil {
				return
			}
			if p, rn := recvTypeName(f); p != pkgIndex || rn != "InsertionIndex" {
				return
			}
			g, known := gran[f.Name()]
			if !known {
				g = "digest"
			}
			saw[g] = true
			switch g {
			case "cid":
				if reach(fn, nil, edgeSet(wholeTrue))[in.Block()] {
					bad = fmt.Sprintf("%s (whole-CID granularity) at %s is consulted outside the UseWholeCIDs branch", f.Name(), c.Pos(in.Pos()))
				}
			case "multihash":
				if reach(fn, nil, edgeSet(wholeFalse))[in.Block()] {
					bad = fmt.Sprintf("%s (multihash granularity) at %s is consulted outside the !UseWholeCIDs branch", f.Name(), c.Pos(in.Pos()))
				}
			default:
				bad = fmt.Sprintf("%s at %s matches by bare digest only (its iterator compares neither the CID nor the multihash with the key): two keys with equal digests under different hash codes are confused", f.Name(), c.Pos(in.Pos()))
			}
		})
		if bad == "" && (!saw["cid"] || !saw["multihash"]) {
			bad = "does not consult both a whole-CID predicate (UseWholeCIDs) and a multihash predicate (default)"
		}
		r.Check(bad == "", "predicate@"+fnKey(fn), c.Pos(fn.Pos()), "whole-CID branch -> cid-granular predicate, default branch -> multihash-granular predicate", bad)
	}
	for _, m := range []string{"HasExactCID", "HasMultihash"} {
		want := map[string]string{"HasExactCID": "cid", "HasMultihash": "multihash"}[m]
		r.Check(gran[m] == want, "granularity@v2/index.InsertionIndex."+m, "-", "iterator compares at "+want+" granularity", fmt.Sprintf("%s is expected to decide at %s granularity but its iterator only establishes %s granularity", m, want, gran[m]))
	}
	// call sites pass the options by position
	wantFields := []string{"MaxIndexCidSize", "StoreIdentityCIDs", "BlockstoreAllowDuplicatePuts", "BlockstoreUseWholeCIDs"}
	for _, fn := range c.RepoFuncs() {
		ord := 0
		eachInstr(fn, func(in ssa.Instruction) {
			ci, ok := in.(*ssa.Call)
			if !ok {
				return
			}
			f := calleeFunc(ci.Common())
			if !(funcIs(f, pkgStore, "", "ShouldPut") || funcIs(f, pkgStore, "", "Has")) {
				return
			}
			ord++
			key := fmt.Sprintf("option-args@%s#%s#%d", fnKey(fn), f.Name(), ord)
			bad := ""
			for i, wf := range wantFields {
				if !loadsField(canon(ci.Call.Args[2+i]), modV2, "Options", wf) {
					bad = fmt.Sprintf("argument %d of store.%s is not Options.%s", 3+i, f.Name(), wf)
				}
			}
			r.Check(bad == "", key, c.Pos(in.Pos()), "options passed in declaration order", bad)
		})
	}
}

type methodSpec struct {
	pkg, recv, name string
	write           bool
}

var typestateMethods = []methodSpec{
	{pkgBS, "ReadOnly", "Has", false}, {pkgBS, "ReadOnly", "Get", false}, {pkgBS, "ReadOnly", "GetSize", false}, {pkgBS, "ReadOnly", "AllKeysChan", false},
	{pkgBS, "ReadWrite", "PutMany", true}, {pkgBS, "ReadWrite", "Has", false}, {pkgBS, "ReadWrite", "AllKeysChan", false}, {pkgBS, "ReadWrite", "finalizeReadOnlyWithoutMutex", false},
	{pkgStorage, "StorageCar", "Put", false}, {pkgStorage, "StorageCar", "Has", false}, {pkgStorage, "StorageCar", "GetStream", false}, {pkgStorage, "StorageCar", "Finalize", false},
	{pkgDeferred, "DeferredCarWriter", "Has", false}, {pkgDeferred, "DeferredCarWriter", "Put", false}, {pkgDeferred, "DeferredCarWriter", "Close", false},
}

var closedFlag = map[string][3]string{
	"ReadOnly": {pkgBS, "ReadOnly", "closed"}, "ReadWrite": {pkgBS, "ReadOnly", "closed"},
	"StorageCar": {pkgStorage, "StorageCar", "closed"}, "DeferredCarWriter": {pkgDeferred, "DeferredCarWriter", "closed"},
}

// sensitiveUses: calls that touch the index, a writer, or look a key up in the backing.
func sensitiveUses(c *Ctx, fn *ssa.Function) []ssa.Instruction {
	var out []ssa.Instruction
	for _, f := range withAnon(fn) {
		if f != fn {
			// closures started by this method inherit its gate: their creation site is what matters
			continue
		}
		eachInstr(f, func(in ssa.Instruction) {
			ci, ok := in.(ssa.CallInstruction)
			if !ok {
				return
			}
			if _, _, isLock := lockOp(ci.Common()); isLock {
				return
			}
			cf := calleeFunc(ci.Common())
			if funcIs(cf, pkgStore, "", "FindCid") {
				out = append(out, in)
				return
			}
			for _, a := range callArgs(ci.Common()) {
				if _, _, ok := guardedPointee(a); ok || isBackingLoad(a) {
					out = append(out, in)
					return
				}
			}
			// helpers of the same type that do the touching for us
			if sc := ci.Common().StaticCallee(); sc != nil && sc.Signature.Recv() != nil && sc.Pkg == fn.Pkg && !isExportedEntry(sc) {
				if len(sensitiveUsesShallow(sc)) > 0 || storesGuardedField(sc) {
					out = append(out, in)
				}
			}
		})
		// goroutines / callbacks created here that touch guarded state
		eachInstr(f, func(in ssa.Instruction) {
			if mc, ok := in.(*ssa.MakeClosure); ok {
				if len(sensitiveUsesShallow(mc.Fn.(*ssa.Function))) > 0 {
					out = append(out, in)
				}
			}
		})
	}
	return out
}

// isBackingLoad: the value is the backing reader of a store (payload window).
func isBackingLoad(v ssa.Value) bool {
	v = canon(v)
	return loadsField(v, pkgBS, "ReadOnly", "backing") || loadsField(v, pkgStorage, "StorageCar", "reader")
}

// storesGuardedField: the helper assigns a guarded field (lazy initialisation).
func storesGuardedField(fn *ssa.Function) bool {
	found := false
	eachInstr(fn, func(in ssa.Instruction) {
		if st, ok := in.(*ssa.Store); ok {
			if fa, ok := st.Addr.(*ssa.FieldAddr); ok {
				n := namedOf(fa.X.Type())
				fv := fieldVar(fa.X.Type(), fa.Field)
				if n != nil && fv != nil && n.Obj().Pkg() != nil {
					if _, ok := guards.values[fieldID{n.Obj().Pkg().Path(), n.Obj().Name(), fv.Name()}]; ok {
						found = true
					}
				}
			}
		}
	})
	return found
}

func sensitiveUsesShallow(fn *ssa.Function) []ssa.Instruction {
	var out []ssa.Instruction
	for _, f := range withAnon(fn) {
		eachInstr(f, func(in ssa.Instruction) {
			ci, ok := in.(ssa.CallInstruction)
			if !ok {
				return
			}
			if _, _, isLock := lockOp(ci.Common()); isLock {
				return
			}
			if funcIs(calleeFunc(ci.Common()), pkgStore, "", "FindCid") {
				out = append(out, in)
				return
			}
			for _, a := range callArgs(ci.Common()) {
				if _, _, ok := guardedPointee(a); ok || isBackingLoad(a) {
					out = append(out, in)
					return
				}
			}
		})
	}
	return out
}

func ruleR04b(c *Ctx, r *Report) {
	autoGuard(c)
	for _, m := range typestateMethods {
		fn, err := c.Func(m.pkg, m.recv, m.name)
		if err != nil {
			r.InfraFail("%v", err)
			continue
		}
		key := "closed-gate@" + fnKey(fn)
		cf := closedFlag[m.recv]
		notClosed := condEdges(fn, matchFieldCond(cf[0], cf[1], cf[2], false))
		uses := sensitiveUses(c, fn)
		if len(uses) == 0 {
			r.Undec(key, c.Pos(fn.Pos()), "no use of index/writer/backing found in this method: the rule cannot see what it is supposed to gate")
			continue
		}
		if len(notClosed) == 0 {
			r.Viol(key, c.Pos(fn.Pos()), "the method never tests the closed flag but uses the index/writer/backing")
			continue
		}
		bad := ""
		reachable := reach(fn, nil, edgeSet(notClosed))
		for _, u := range uses {
			if reachable[u.Block()] {
				bad = fmt.Sprintf("use at %s is reachable without the not-closed outcome of the closed flag test", c.Pos(u.Pos()))
			}
		}
		if bad == "" && m.write {
			notFin := condEdges(fn, matchFieldCond(pkgBS, "ReadWrite", "finalized", false))
			if len(notFin) == 0 {
				bad = "write method never tests the finalized flag"
			} else {
				rr := reach(fn, nil, edgeSet(notFin))
				for _, u := range uses {
					if rr[u.Block()] {
						bad = fmt.Sprintf("write at %s is reachable without the not-finalized outcome", c.Pos(u.Pos()))
					}
				}
			}
		}
		r.Check(bad == "", key, c.Pos(fn.Pos()), fmt.Sprintf("%d use(s) of index/writer/backing all behind !closed%s", len(uses), map[bool]string{true: " and !finalized", false: ""}[m.write]), bad)
	}
}

// storesTrueTo returns the stores of constant true to field pkg.typ.name in fn and,
// transitively, in same-package static callees that do so on all their paths.
func closingInstrs(c *Ctx, fn *ssa.Function, flag [3]string, depth int) []ssa.Instruction {
	var out []ssa.Instruction
	alt := [3]string{pkgBS, "ReadWrite", "finalized"}
	eachInstr(fn, func(in ssa.Instruction) {
		switch x := in.(type) {
		case *ssa.Store:
			if fa, ok := x.Addr.(*ssa.FieldAddr); ok && fieldAddrIs(fa, flag[0], flag[1], flag[2]) {
				if b, ok := constBool(x.Val); ok && b {
					out = append(out, in)
				}
			}
		case *ssa.Call:
			if depth < 3 {
				if sc := x.Common().StaticCallee(); sc != nil && sc.Blocks != nil && sc.Pkg == fn.Pkg && sc != fn {
					if closesOnAllPaths(c, sc, flag, depth+1, nil) {
						out = append(out, in)
					} else if establishedBefore(c, fn, x, [][3]string{alt, flag}) && closesOnAllPaths(c, sc, flag, depth+1, &alt) {
						// the callee may leave early when `finalized` is false, but an earlier
						// call in this function established finalized || closed
						out = append(out, in)
					}
				}
			}
		}
	})
	return out
}

// closesOnAllPaths: every return of fn is preceded by a closing instruction or sits
// behind the already-closed outcome.
func closesOnAllPaths(c *Ctx, fn *ssa.Function, flag [3]string, depth int, assumeAltOrClosed *[3]string) bool {
	closers := closingInstrs(c, fn, flag, depth)
	if len(closers) == 0 {
		return false
	}
	return len(unclosedReturnsAssuming(fn, closers, flag, assumeAltOrClosed)) == 0
}

// establishedBefore: some call that dominates `at` in fn goes to a function every
// return of which has one of the flags set to true (stored, or tested true).
func establishedBefore(c *Ctx, fn *ssa.Function, at ssa.Instruction, flags [][3]string) bool {
	ok := false
	eachInstr(fn, func(in ssa.Instruction) {
		ci, isCall := in.(*ssa.Call)
		if !isCall || in == at {
			return
		}
		sc := ci.Common().StaticCallee()
		if sc == nil || sc.Blocks == nil || sc.Pkg != fn.Pkg {
			return
		}
		if !(in.Block() == at.Block() && instrIndex(in) < instrIndex(at)) && !(in.Block() != at.Block() && in.Block().Dominates(at.Block())) {
			return
		}
		if establishesOneOf(sc, flags) {
			ok = true
		}
	})
	return ok
}

func establishesOneOf(fn *ssa.Function, flags [][3]string) bool {
	cut := EdgeSet{}
	setBlocks := map[*ssa.BasicBlock][]ssa.Instruction{}
	for _, fl := range flags {
		eachInstr(fn, func(in ssa.Instruction) {
			if st, ok := in.(*ssa.Store); ok {
				if fa, ok := st.Addr.(*ssa.FieldAddr); ok && fieldAddrIs(fa, fl[0], fl[1], fl[2]) {
					if b, ok := constBool(st.Val); ok && b {
						setBlocks[in.Block()] = append(setBlocks[in.Block()], in)
						for i := range in.Block().Succs {
							cut[Edge{in.Block(), i}] = true
						}
					}
				}
			}
		})
		for _, e := range condEdges(fn, matchFieldCond(fl[0], fl[1], fl[2], true)) {
			cut[e] = true
		}
	}
	reachable := reach(fn, nil, cut)
	for _, ret := range returnsOf(fn) {
		if !reachable[ret.Block()] {
			continue
		}
		ok := false
		for _, si := range setBlocks[ret.Block()] {
			if instrIndex(si) < instrIndex(ret) {
				ok = true
			}
		}
		if !ok {
			return false
		}
	}
	return true
}

func unclosedReturns(fn *ssa.Function, closers []ssa.Instruction, flag [3]string) []*ssa.Return {
	return unclosedReturnsAssuming(fn, closers, flag, nil)
}

func unclosedReturnsAssuming(fn *ssa.Function, closers []ssa.Instruction, flag [3]string, assumeAltOrClosed *[3]string) []*ssa.Return {
	// blocks containing a closer cut all their outgoing paths: model by removing the block's out-edges
	cut := EdgeSet{}
	closerBlocks := map[*ssa.BasicBlock]bool{}
	for _, ci := range closers {
		closerBlocks[ci.Block()] = true
		for i := range ci.Block().Succs {
			cut[Edge{ci.Block(), i}] = true
		}
	}
	// the already-closed outcome also establishes closed == true
	for _, e := range condEdges(fn, matchFieldCond(flag[0], flag[1], flag[2], true)) {
		cut[e] = true
	}
	if assumeAltOrClosed != nil {
		// (alt || closed) holds on entry: where alt is found false, closed is true
		a := *assumeAltOrClosed
		for _, e := range condEdges(fn, matchFieldCond(a[0], a[1], a[2], false)) {
			cut[e] = true
		}
	}
	reachable := reach(fn, nil, cut)
	var out []*ssa.Return
	for _, ret := range returnsOf(fn) {
		if !reachable[ret.Block()] {
			continue
		}
		if closerBlocks[ret.Block()] {
			// closer and return in the same block: closed if the closer comes first
			ok := false
			for _, ci := range closers {
				if ci.Block() == ret.Block() && instrIndex(ci) < instrIndex(ret) {
					ok = true
				}
			}
			if ok {
				continue
			}
		}
		out = append(out, ret)
	}
	return out
}

type finalizerSpec struct {
	pkg, recv, name string
	flag            [3]string
}

var finalizers = []finalizerSpec{
	{pkgBS, "ReadWrite", "Finalize", closedFlag["ReadWrite"]},
	{pkgBS, "ReadOnly", "Close", closedFlag["ReadOnly"]},
	{pkgStorage, "StorageCar", "Finalize", closedFlag["StorageCar"]},
	{pkgDeferred, "DeferredCarWriter", "Close", closedFlag["DeferredCarWriter"]},
}

func checkFinalizerCloses(c *Ctx, r *Report, f finalizerSpec) {
	fn, err := c.Func(f.pkg, f.recv, f.name)
	if err != nil {
		r.InfraFail("%v", err)
		return
	}
	key := "finalizer-closes@" + fnKey(fn)
	closers := closingInstrs(c, fn, f.flag, 0)
	if len(closers) == 0 {
		r.Viol(key, c.Pos(fn.Pos()), "the finalizer never sets the closed flag (directly or through a helper that does so on all its paths)")
		return
	}
	bad := ""
	for _, ret := range unclosedReturns(fn, closers, f.flag) {
		if why, ok := notWritableExit(fn, ret); ok {
			r.Exempt(key+"#exit-"+why, c.Pos(ret.Pos()), "return taken only when the store is not a writable store ("+why+"); C04 speaks of writable stores")
			continue
		}
		bad = fmt.Sprintf("the return at %s can be reached without the store having been marked closed: after this call lookups and writes keep succeeding", c.Pos(ret.Pos()))
	}
	r.Check(bad == "", key, c.Pos(fn.Pos()), "every return leaves closed == true", bad)
}

func ruleR04c(c *Ctx, r *Report) {
	for _, f := range finalizers {
		checkFinalizerCloses(c, r, f)
	}
	// ReadWrite.Discard delegates to ReadOnly.Close
	fn, err := c.Func(pkgBS, "ReadWrite", "Discard")
	if err != nil {
		r.InfraFail("%v", err)
		return
	}
	n := len(callsToFunc(fn, pkgBS, "ReadOnly", "Close"))
	r.Check(n == 1, "finalizer-closes@"+fnKey(fn), c.Pos(fn.Pos()), "delegates to ReadOnly.Close", "Discard no longer delegates to ReadOnly.Close")
}

// notWritableExit: the return is reachable only through a failed comma-ok type
// assertion or a nil test of the writer field (the store is read-only / has no WriterAt).
func notWritableExit(fn *ssa.Function, ret *ssa.Return) (string, bool) {
	edges := condEdges(fn, func(base ssa.Value) (bool, bool) {
		// ok result of a TypeAssert
		if ex, isEx := base.(*ssa.Extract); isEx && ex.Index == 1 {
			if _, isTA := ex.Tuple.(*ssa.TypeAssert); isTA {
				return true, false
			}
		}
		if b, isB := base.(*ssa.BinOp); isB && (b.Op == token.EQL || b.Op == token.NEQ) {
			var o ssa.Value
			if isNilConst(b.Y) {
				o = b.X
			} else if isNilConst(b.X) {
				o = b.Y
			}
			if o != nil && loadsField(canon(o), pkgStorage, "StorageCar", "writer") {
				return true, b.Op == token.EQL
			}
		}
		return false, false
	})
	if len(edges) == 0 {
		return "", false
	}
	if reach(fn, nil, edgeSet(edges))[ret.Block()] {
		return "", false
	}
	return "type-assertion-failed-or-no-writer", true
}

func ruleR04d(c *Ctx, r *Report) {
	type site struct {
		pkg, recv, name string
		param           int // >=0: StoreIdentityCIDs is this parameter; -1: Options field
	}
	for _, s := range []site{
		{pkgBS, "ReadOnly", "Has", -1}, {pkgBS, "ReadOnly", "Get", -1},
		{pkgStorage, "StorageCar", "Has", -1}, {pkgStorage, "StorageCar", "GetStream", -1},
		{pkgStore, "", "Has", 3}, {pkgStore, "", "ShouldPut", 3},
	} {
		fn, err := c.Func(s.pkg, s.recv, s.name)
		if err != nil {
			r.InfraFail("%v", err)
			continue
		}
		key := "identity-shortcut@" + fnKey(fn)
		calls := callsToFunc(fn, pkgStore, "", "IsIdentity")
		if len(calls) == 0 {
			r.Viol(key, c.Pos(fn.Pos()), "no identity short-circuit at all: identity CIDs are no longer answered per IdStore rules when StoreIdentityCIDs is off")
			continue
		}
		var off []Edge
		if s.param >= 0 {
			if s.param >= len(fn.Params) {
				r.Undec(key, c.Pos(fn.Pos()), "signature changed")
				continue
			}
			off = boolParamEdges(fn, fn.Params[s.param], false)
		} else {
			off = condEdges(fn, matchFieldCond(modV2, "Options", "StoreIdentityCIDs", false))
		}
		if len(off) == 0 {
			r.Viol(key, c.Pos(calls[0].Pos()), "identity short-circuit ignores the StoreIdentityCIDs option")
			continue
		}
		reachable := reach(fn, nil, edgeSet(off))
		bad := ""
		for _, ci := range calls {
			if reachable[ci.Block()] {
				bad = fmt.Sprintf("IsIdentity short-circuit at %s is taken even when StoreIdentityCIDs is on: stored identity blocks would be answered without consulting the index", c.Pos(ci.Pos()))
			}
		}
		r.Check(bad == "", key, c.Pos(calls[0].Pos()), "short-circuit only behind !StoreIdentityCIDs", bad)
	}
	r.Exempt("identity-shortcut@v2/blockstore.ReadOnly.GetSize", "-", "documented and pinned by TestReadOnly: GetSize answers identity CIDs with len(digest) regardless of the option")
}

func ruleR04e(c *Ctx, r *Report) {
	fn, err := c.Func(pkgStore, "", "ShouldPut")
	if err != nil {
		r.InfraFail("%v", err)
		return
	}
	key := "cidsize-gate@" + fnKey(fn)
	if len(fn.Params) != 6 {
		r.Undec(key, c.Pos(fn.Pos()), "signature changed")
		return
	}
	cidp, maxp := fn.Params[1], fn.Params[2]
	env := &AffEnv{}
	isLen := func(v ssa.Value) bool {
		a := env.of(canon(v))
		return a.equal(affAtom("cidlen(param:"+cidp.Name()+")")) || a.equal(affAtom("len("+env.valName(v)+")")) && false
	}
	le := cmpEdges(fn, isLen, func(v ssa.Value) bool { return canon(v) == ssa.Value(maxp) }, "le")
	if len(le) == 0 {
		r.Viol(key, c.Pos(fn.Pos()), "ShouldPut does not compare the CID's encoded length with maxIndexCidSize")
	} else {
		reachable := reach(fn, nil, edgeSet(le))
		bad := ""
		for _, ret := range returnsOf(fn) {
			if b, ok := constBool(ret.Results[0]); ok && !b {
				continue
			}
			if reachable[ret.Block()] {
				bad = fmt.Sprintf("return at %s can answer 'put it' (or skip as duplicate) without the CID length having been checked against MaxIndexCidSize", c.Pos(ret.Pos()))
			}
		}
		r.Check(bad == "", key, c.Pos(fn.Pos()), "all non-false answers behind len(c.Bytes()) <= maxIndexCidSize", bad)
	}
	// no mutation in ShouldPut: only read-only index predicates are called on idx
	{
		bad := ""
		eachInstr(fn, func(in ssa.Instruction) {
			if ci, ok := in.(*ssa.Call); ok {
				f := calleeFunc(ci.Common())
				if f != nil && mutatingCallee[f.Name()] {
					bad = "ShouldPut calls mutating " + funcKey(f) + " at " + c.Pos(in.Pos())
				}
			}
		})
		r.Check(bad == "", "pure@"+fnKey(fn), c.Pos(fn.Pos()), "no mutating callee", bad)
	}
	// put paths
	for _, m := range []methodSpec{{pkgBS, "ReadWrite", "PutMany", true}, {pkgStorage, "StorageCar", "Put", true}} {
		pf, err := c.Func(m.pkg, m.recv, m.name)
		if err != nil {
			r.InfraFail("%v", err)
			continue
		}
		k := "put-gate@" + fnKey(pf)
		sp := callsToFunc(pf, pkgStore, "", "ShouldPut")
		if len(sp) != 1 {
			r.Viol(k, c.Pos(pf.Pos()), fmt.Sprintf("expected exactly one store.ShouldPut decision, found %d", len(sp)))
			continue
		}
		should := extractOf(sp[0].Value(), 0)
		var sinks []ssa.Instruction
		sinks = append(sinks, toInstrs(callsToFunc(pf, pkgV1Util, "", "LdWrite"))...)
		sinks = append(sinks, toInstrs(callsToFunc(pf, pkgIndex, "InsertionIndex", "InsertNoReplace"))...)
		if len(sinks) < 2 || should == nil {
			r.Undec(k, c.Pos(pf.Pos()), "LdWrite/InsertNoReplace or the decision value not found")
			continue
		}
		errNil := condEdges(pf, errNilCond(errOfCall(sp[0]), true))
		shouldTrue := condEdges(pf, func(base ssa.Value) (bool, bool) {
			if canon(base) == should {
				return true, true
			}
			return false, false
		})
		bad := ""
		if len(errNil) == 0 || len(shouldTrue) == 0 {
			bad = "the put path does not branch on both results of ShouldPut"
		} else {
			r1 := reach(pf, nil, edgeSet(errNil))
			r2 := reach(pf, nil, edgeSet(shouldTrue))
			for _, s := range sinks {
				if r1[s.Block()] {
					bad = fmt.Sprintf("write/insert at %s reachable although ShouldPut returned an error (e.g. CID too large)", c.Pos(s.Pos()))
				}
				if r2[s.Block()] {
					bad = fmt.Sprintf("write/insert at %s reachable although ShouldPut said no", c.Pos(s.Pos()))
				}
			}
		}
		r.Check(bad == "", k, c.Pos(pf.Pos()), "LdWrite and InsertNoReplace only behind err == nil and should == true", bad)
	}
}

func toInstrs(cs []ssa.CallInstruction) []ssa.Instruction {
	var out []ssa.Instruction
	for _, c := range cs {
		out = append(out, c)
	}
	return out
}

var _ = types.Typ
