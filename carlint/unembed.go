package main

import (
	_ "embed"
	"fmt"
	"go/ast"
	"go/token"
	"go/types"
	"os"
	"sort"
	"strings"

	"golang.org/x/tools/go/packages"
)

// Second half of the normalisation pass: a NEW unexported struct type that exists only to group
// fields of an existing struct (`type BlockReader struct { ...; blockReaderState }`) is flattened
// back — its fields are declared in the outer struct again, `x.T.f` becomes `x.f`, the nested
// composite literal is spliced into the outer one, and a by-value use `x.T` becomes `T{f: x.f, ...}`.
// The rules then see the field layout they were written for. The type itself and its methods stay
// declared (the methods have been inlined by the first half). Anything the rewriting does not
// understand (address of the embedded struct taken, assignment to it, a promoted method still called)
// leaves that type alone. All edits are deletions and insertions that keep every line where it was.

//go:embed baseline_types.txt
var baselineTypesTxt string

var baselineTypes = func() map[string]bool {
	m := map[string]bool{}
	for _, l := range strings.Split(baselineTypesTxt, "\n") {
		l = strings.TrimSpace(l)
		if l != "" && !strings.HasPrefix(l, "#") {
			m[l] = true
		}
	}
	return m
}()

func listTypeDecls(c *Ctx) []string {
	var out []string
	for path, p := range c.Pkgs {
		scope := p.Types.Scope()
		for _, n := range scope.Names() {
			if tn, ok := scope.Lookup(n).(*types.TypeName); ok {
				out = append(out, path+"\t"+tn.Name())
			}
		}
	}
	sort.Strings(out)
	return out
}

type unembedder struct {
	fset  *token.FileSet
	pkg   *packages.Package
	src   map[string][]byte
	edits map[string][]textEdit
	log   []string
}

func (u *unembedder) off(p token.Pos) int { return u.fset.PositionFor(p, false).Offset }
func (u *unembedder) fname(p token.Pos) string {
	return u.fset.File(p).Name()
}
func (u *unembedder) text(a, b token.Pos) string {
	return string(u.src[u.fname(a)][u.off(a):u.off(b)])
}
func (u *unembedder) del(a, b token.Pos) {
	fn := u.fname(a)
	u.edits[fn] = append(u.edits[fn], textEdit{u.off(a), u.off(b), ""})
}
func (u *unembedder) ins(at token.Pos, s string) {
	fn := u.fname(at)
	u.edits[fn] = append(u.edits[fn], textEdit{u.off(at), u.off(at), s})
}
func (u *unembedder) repl(a, b token.Pos, s string) {
	fn := u.fname(a)
	u.edits[fn] = append(u.edits[fn], textEdit{u.off(a), u.off(b), s})
}

func unembedNewStructs(fset *token.FileSet, pkgs []*packages.Package, overlay map[string][]byte) (map[string][]byte, []string, error) {
	out := map[string][]byte{}
	var log []string
	for _, p := range pkgs {
		if !isRepoPkg(p.PkgPath) || p.TypesInfo == nil {
			continue
		}
		info := p.TypesInfo
		// candidates: new unexported struct types
		type cand struct {
			spec *ast.TypeSpec
			st   *ast.StructType
			obj  *types.TypeName
		}
		var cands []*cand
		for _, f := range p.Syntax {
			if strings.HasSuffix(fset.File(f.Pos()).Name(), "_test.go") {
				continue
			}
			for _, d := range f.Decls {
				gd, ok := d.(*ast.GenDecl)
				if !ok || gd.Tok != token.TYPE {
					continue
				}
				for _, sp := range gd.Specs {
					ts := sp.(*ast.TypeSpec)
					st, isStruct := ts.Type.(*ast.StructType)
					if !isStruct || ts.Name.IsExported() || ts.TypeParams != nil || ts.Assign.IsValid() || baselineTypes[p.PkgPath+"\t"+ts.Name.Name] {
						continue
					}
					if obj, _ := info.Defs[ts.Name].(*types.TypeName); obj != nil {
						cands = append(cands, &cand{ts, st, obj})
					}
				}
			}
		}
		if len(cands) == 0 {
			continue
		}
		for _, cd := range cands {
			u := &unembedder{fset: fset, pkg: p, src: map[string][]byte{}, edits: map[string][]textEdit{}}
			ok := true
			for _, f := range p.Syntax {
				fn := fset.File(f.Pos()).Name()
				if b, has := out[fn]; has {
					_ = b
					ok = false // one type per file and round: offsets of an edited file are stale
					break
				}
				b, has := overlay[fn]
				if !has {
					var err error
					if b, err = os.ReadFile(fn); err != nil {
						return nil, nil, err
					}
				}
				u.src[fn] = b
			}
			if !ok || !u.flatten(cd.spec, cd.st, cd.obj) {
				continue
			}
			for fn, eds := range u.edits {
				nb, err := applyEdits(u.src[fn], eds)
				if err != nil {
					return nil, nil, fmt.Errorf("%s: %v", fn, err)
				}
				out[fn] = nb
			}
			log = append(log, u.log...)
		}
	}
	if len(out) == 0 {
		return nil, log, nil
	}
	return out, log, nil
}

func (u *unembedder) flatten(spec *ast.TypeSpec, st *ast.StructType, obj *types.TypeName) bool {
	info := u.pkg.TypesInfo
	// field names of T, in order; embedded fields inside T are not handled
	var names []string
	for _, f := range st.Fields.List {
		if len(f.Names) == 0 {
			return false
		}
		for _, n := range f.Names {
			names = append(names, n.Name)
		}
	}
	if len(names) == 0 {
		return false
	}
	// embedding sites
	fv := map[*types.Var]bool{}
	type embSite struct {
		field *ast.Field
		outer *ast.StructType
	}
	var sites []embSite
	bad := false
	for _, f := range u.pkg.Syntax {
		ast.Inspect(f, func(n ast.Node) bool {
			ost, ok := n.(*ast.StructType)
			if !ok || ost.Fields == nil {
				return true
			}
			for _, fl := range ost.Fields.List {
				if len(fl.Names) != 0 {
					continue
				}
				switch t := fl.Type.(type) {
				case *ast.Ident:
					if info.Uses[t] == types.Object(obj) {
						if v, _ := info.Defs[t].(*types.Var); v != nil {
							fv[v] = true
							sites = append(sites, embSite{fl, ost})
						}
					}
				case *ast.StarExpr:
					if id, ok := t.X.(*ast.Ident); ok && info.Uses[id] == types.Object(obj) {
						bad = true // embedded by pointer: sharing, not grouping
					}
				}
			}
			return true
		})
	}
	if bad || len(sites) == 0 {
		return false
	}
	// the struct decls
	body := u.text(st.Fields.Opening+1, st.Fields.Closing)
	body = strings.TrimRight(body, " \t\n")
	for _, s := range sites {
		if strings.HasSuffix(u.fname(s.field.Pos()), "_test.go") {
			return false
		}
		pos := u.fset.PositionFor(s.field.End(), true)
		// only when the embedded field ends its line (nothing but a comment after it)
		rest := u.src[u.fname(s.field.End())][u.off(s.field.End()):]
		if i := strings.IndexByte(string(rest), '\n'); i >= 0 {
			rest = rest[:i]
		}
		if t := strings.TrimSpace(string(rest)); t != "" && !strings.HasPrefix(t, "//") {
			return false
		}
		u.repl(s.field.Pos(), s.field.End(), "// (flattened "+obj.Name()+")"+body+fmt.Sprintf("\n//line %s:%d", pos.Filename, pos.Line+1))
	}
	keyed := func(cl *ast.CompositeLit) (isKeyed, isPositional bool) {
		if len(cl.Elts) == 0 {
			return false, false
		}
		k := 0
		for _, e := range cl.Elts {
			if _, ok := e.(*ast.KeyValueExpr); ok {
				k++
			}
		}
		return k == len(cl.Elts), k == 0
	}
	isLitOfT := func(e ast.Expr) *ast.CompositeLit {
		cl, ok := ast.Unparen(e).(*ast.CompositeLit)
		if !ok {
			return nil
		}
		if tv, ok := info.Types[cl]; ok {
			if n, ok := tv.Type.(*types.Named); ok && n.Obj() == obj {
				return cl
			}
		}
		return nil
	}
	// splice the inner literal `T{...}` standing at [a,b) (b = end of the literal) into the outer one
	splice := func(a token.Pos, inner *ast.CompositeLit, wantKeys bool) bool {
		isK, isP := keyed(inner)
		switch {
		case isK && wantKeys:
		case isP && len(inner.Elts) == len(names):
			if wantKeys {
				for i, e := range inner.Elts {
					u.ins(e.Pos(), names[i]+": ")
				}
			}
		default:
			return false
		}
		// delete `T: T{` / `T{`, and the closing brace; a trailing comma inside plus a comma after
		// the brace would double up: drop the one after the brace
		u.del(a, inner.Lbrace+1)
		tail := u.text(inner.Elts[len(inner.Elts)-1].End(), inner.Rbrace)
		u.del(inner.Rbrace, inner.Rbrace+1)
		if strings.Contains(tail, ",") {
			src := u.src[u.fname(inner.Rbrace)]
			i := u.off(inner.Rbrace) + 1
			for i < len(src) && (src[i] == ' ' || src[i] == '\t') {
				i++
			}
			if i < len(src) && src[i] == ',' {
				fn := u.fname(inner.Rbrace)
				u.edits[fn] = append(u.edits[fn], textEdit{i, i + 1, ""})
			}
		}
		return true
	}
	okAll := true
	for _, f := range u.pkg.Syntax {
		if strings.HasSuffix(u.fname(f.Pos()), "_test.go") {
			continue
		}
		var stack []ast.Node
		ast.Inspect(f, func(n ast.Node) bool {
			if n == nil {
				stack = stack[:len(stack)-1]
				return true
			}
			var parent ast.Node
			if len(stack) > 0 {
				parent = stack[len(stack)-1]
			}
			stack = append(stack, n)
			if !okAll {
				return true
			}
			switch x := n.(type) {
			case *ast.SelectorExpr:
				sel := info.Selections[x]
				if sel == nil {
					return true
				}
				if v, _ := sel.Obj().(*types.Var); v != nil && fv[v] && sel.Kind() == types.FieldVal {
					// explicit x.T
					switch pp := parent.(type) {
					case *ast.SelectorExpr:
						if pp.X == ast.Expr(x) {
							if ps := info.Selections[pp]; ps == nil || ps.Kind() != types.FieldVal {
								okAll = false // x.T.method()
								return true
							}
							u.del(x.X.End(), x.End())
							return true
						}
					case *ast.UnaryExpr:
						if pp.Op == token.AND {
							okAll = false
							return true
						}
					case *ast.AssignStmt:
						for _, l := range pp.Lhs {
							if l == ast.Expr(x) {
								okAll = false
								return true
							}
						}
					}
					if !pureExprInfo(x.X, info) {
						okAll = false
						return true
					}
					base := u.text(x.X.Pos(), x.X.End())
					var parts []string
					for _, nm := range names {
						parts = append(parts, nm+": "+base+"."+nm)
					}
					u.repl(x.Pos(), x.End(), obj.Name()+"{"+strings.Join(parts, ", ")+"}")
					stack = stack[:len(stack)-1]
					return false
				}
				// implicit path through T
				if idx := sel.Index(); len(idx) > 1 {
					t := info.TypeOf(x.X)
					through := false
					for _, k := range idx[:len(idx)-1] {
						if pt, ok := t.Underlying().(*types.Pointer); ok {
							t = pt.Elem()
						}
						stt, ok := t.Underlying().(*types.Struct)
						if !ok || k >= stt.NumFields() {
							break
						}
						if fv[stt.Field(k)] {
							through = true
						}
						t = stt.Field(k).Type()
					}
					if through && sel.Kind() != types.FieldVal {
						okAll = false // a promoted method is still called
					}
				}
			case *ast.CompositeLit:
				tv, ok := info.Types[x]
				if !ok {
					return true
				}
				t := tv.Type
				if pt, ok := t.Underlying().(*types.Pointer); ok {
					t = pt.Elem()
				}
				ost, ok := t.Underlying().(*types.Struct)
				if !ok {
					return true
				}
				embIdx := -1
				for i := 0; i < ost.NumFields(); i++ {
					if fv[ost.Field(i)] {
						embIdx = i
					}
				}
				if embIdx < 0 {
					return true
				}
				isK, isP := keyed(x)
				switch {
				case isK:
					for _, e := range x.Elts {
						kv := e.(*ast.KeyValueExpr)
						kid, _ := kv.Key.(*ast.Ident)
						if kid == nil {
							continue
						}
						if v, _ := info.Uses[kid].(*types.Var); v == nil || !fv[v] {
							continue
						}
						inner := isLitOfT(kv.Value)
						if inner == nil || len(inner.Elts) == 0 || !splice(kv.Pos(), inner, true) {
							okAll = false
						}
					}
				case isP:
					if embIdx < len(x.Elts) {
						inner := isLitOfT(x.Elts[embIdx])
						if inner == nil || len(inner.Elts) == 0 || !splice(x.Elts[embIdx].Pos(), inner, false) {
							okAll = false
						}
					}
				}
			}
			return true
		})
	}
	if !okAll {
		return false
	}
	u.log = append(u.log, fmt.Sprintf("flattened the new embedded struct %s back into its %d outer struct(s) (%s)", obj.Name(), len(sites), u.fset.Position(spec.Pos())))
	return true
}
