package main

import (
	"fmt"
	"go/token"
	"go/types"

	"golang.org/x/tools/go/ssa"
)

func init() {
	register(PropertyDef{
		ID: "C01",
		Explanation: "Decided statically — framing agreement between writers and readers, not round-trip equality: (R01a) every section emission through LdWrite passes the CID " +
			"bytes first and the block data second, both belonging to the same block; (R01b) in both modules LdWrite emits uvarint(S) followed by the parts in order, " +
			"LdSize = S + U(S) for S = sum of len(part), LdRead allocates exactly the decoded length and fills it from the reader the length came from, ReadNode returns " +
			"data[n:] for the n the CID decoder consumed from that same data; (R01c) WriteHeader/HeaderSize/ReadHeader are LdWrite/LdSize/LdRead of the cbor encoding of the " +
			"same value, and the CarHeader structs of the two modules are identical field-for-field; (R01d) v2 payload window (= R14a); (R01e) loaders hand every block they " +
			"read to the store; (R01f) de-duplication decides and inserts per block (no batch-wide pre-check). NOT decided: equality of what is read with what was written " +
			"over all inputs; varint-boundary behaviour of go-varint; the de-duplication semantics themselves.",
		Assumptions: []string{"varint.PutUvarint/binary.PutUvarint write the canonical uvarint and return its length", "cbor DumpObject/DecodeInto are inverse for CarHeader"},
		Rules: []RuleDef{
			{ID: "R01a", Floor: 6, Doc: "section emission: LdWrite(w, cid.Bytes(), data) in that order, for one block", Run: ruleR01a},
			{ID: "R01b", Floor: 8, Doc: "framing functions: LdWrite/LdSize/LdRead/ReadNode shapes in both modules", Run: ruleR01b},
			{ID: "R01c", Floor: 7, Doc: "header siblings share one encoding; CarHeader structs identical", Run: ruleR01c},
			{ID: "R01d", Floor: 2, Doc: "v2 payload window of the block reader (= R14a)", Run: ruleR14a},
			{ID: "R01e", Floor: 4, Doc: "loaders store every block read", Run: ruleR01e},
			{ID: "R01g", Floor: 9, Doc: "verifying readers accept exactly the blocks whose bytes hash to their CID under the CID's own prefix (= R02a): a reader that rejects valid blocks breaks the round trip", Run: ruleR02a},
			{ID: "R01h", Floor: 2, Doc: "index generation records true section offsets (= R03b)", Run: ruleR03b},
			{ID: "R01f", Floor: 1, Doc: "PutMany decides and inserts block by block", Run: ruleR01f},
			{ID: "R01i", Floor: 2, Doc: "streams read through the non-seekable adapter are positioned by counting every byte (= R03d)", Run: ruleR03d},
			{ID: "R01j", Floor: 1 + 1 + 4, Doc: "the on-disk index keeps every record handed to it (sorted, none dropped), so index-backed readers see what sequential readers see (= R11b)", Run: ruleR11b},
			{ID: "R01k", Floor: 2 + 2 + 4, Doc: "put de-duplication decides at CID/multihash granularity, never by bare digest: no block that was put is silently left out (= R04a)", Run: ruleR04a},
			{ID: "R01l", Floor: 2, Doc: "index generation decides per section by its own CID (identity and size gates), so an index-backed reader sees every indexable block a sequential reader sees (= R03c)", Run: ruleR03c},
			{ID: "R01m", Floor: 1, Doc: "an object handed back to a sync.Pool is not kept: when the argument of Pool.Put is read from a struct field, nil is stored to that field on the same path (a reader that keeps using, and re-pooling, a bufio.Reader it no longer owns reads another reader's archive)", Run: ruleR01m},
			{ID: "R01n", Floor: 4, Doc: "every traversal writer emits a block once across all roots (one visited-set), like the de-duplicating writers (= R15a)", Run: ruleR15a},
			{ID: "R01o", Floor: 1, Doc: "a reader that re-hashes what it reads uses the CID's own digest length (= R02h)", Run: ruleR02h},
			{ID: "R01p", Floor: 2, Doc: "a block enters the index only after its section was written: a Put that failed must not make the next Put of that block a silent no-op (the CAR then lacks a block the writer acknowledged) (= R06a)", Run: ruleR06a},
			{ID: "R01q", Floor: 4, Doc: "the deferred writer opens its file truncating: a stale tail of a longer earlier file would be read back as further sections (= R20b)", Run: ruleR20b},
			{ID: "R01r", Floor: 2, Doc: "a section exactly as long as its CID is an empty block: wherever the library compares a decoded section length with the length of the section's CID, the comparison is strict (`cidLen > sectionLen` is the error) — every writer emits such sections, and a reader that refuses them disagrees with the others", Run: ruleR01r},
			{ID: "R01s", Floor: 3, Doc: "the root-module selective writer puts every dag the caller listed into the header and walks each of them (= R15m)", Run: ruleR15m},
			{ID: "R01t", Floor: 1, Doc: "no new mutable package-level state in the library: two readers must not share a decoded header (= R13k)", Run: ruleR13k},
			{ID: "R01u", Floor: 1, Doc: "identity blocks read back as the digest the multihash decoder yields (= R04g)", Run: ruleR04g},
			{ID: "R01v", Floor: 1, Doc: "the index decoders accept every multihash code the encoders write: package index consults no registry of hash functions (= R11v)", Run: ruleR11v},
			{ID: "R01w", Floor: 1, Doc: "the storage constructors keep the caller's root list itself (a copy turns nil into an empty list, which the header encodes differently): all writers emit the same header bytes for the same roots", Run: ruleR01w},
			{ID: "R01x", Floor: 1, Doc: "a resumed store finds every block that is in the file: the rescan indexes every section it passes (= R12c)", Run: ruleR12c},
			{ID: "R01y", Floor: 3, Doc: "headers and sections are read completely also from readers that deliver in pieces (= R02q)", Run: ruleR02q},
			{ID: "R01z", Floor: 1, Doc: "the readers that load the embedded index find it where the header says (Header.IndexOffset), index padding included (= R10d)", Run: ruleR10d},
			{ID: "R01C", Floor: 1, Doc: "a reader nested in another is anchored at the parent's start, not at its current position (= R07p)", Run: ruleR07p},
			{ID: "R01A", Floor: 1, Doc: "Reader.Roots returns the decoded root list on every call (= R07m)", Run: ruleR07m},
		},
	})
}

func isLdWrite(f *types.Func) bool {
	return funcIs(f, pkgV1Util, "", "LdWrite") || funcIs(f, pkgRootUtil, "", "LdWrite")
}
func isLdSize(f *types.Func) bool {
	return funcIs(f, pkgV1Util, "", "LdSize") || funcIs(f, pkgRootUtil, "", "LdSize")
}

func isCidBytes(v ssa.Value) (ssa.Value, bool) {
	cl, _ := callOf(canon(v))
	if cl == nil || !funcIs(calleeFunc(cl.Common()), pkgCid, "Cid", "Bytes") {
		return nil, false
	}
	return callArgs(cl.Common())[0], true
}

func ruleR01a(c *Ctx, r *Report) {
	for _, fn := range c.RepoFuncs() {
		ord := 0
		eachInstr(fn, func(in ssa.Instruction) {
			ci, ok := in.(*ssa.Call)
			if !ok || !isLdWrite(calleeFunc(ci.Common())) {
				return
			}
			elems := sliceLiteralElems(ci.Call.Args[1])
			if len(elems) != 2 {
				return // header emission (one part): R01c
			}
			ord++
			key := fmt.Sprintf("section-emit@%s#%d", fnKey(fn), ord)
			bad := ""
			cidv, ok0 := isCidBytes(elems[0])
			_, ok1 := isCidBytes(elems[1])
			switch {
			case !ok0 && ok1:
				bad = "LdWrite is given (data, cid bytes): the section is framed as length|data|cid and no reader can parse it"
			case !ok0:
				bad = "the first part of the section is not <cid>.Bytes()"
			case ok1:
				bad = "both parts of the section are CID bytes"
			}
			if bad == "" {
				// same block: if the data is blk.RawData() and the cid is blk.Cid(), blk must coincide
				dc, _ := callOf(canon(elems[1]))
				cc, _ := callOf(canon(cidv))
				if dc != nil && cc != nil && calleeFunc(dc.Common()) != nil && calleeFunc(cc.Common()) != nil &&
					calleeFunc(dc.Common()).Name() == "RawData" && calleeFunc(cc.Common()).Name() == "Cid" {
					if !sameValue(callArgs(dc.Common())[0], callArgs(cc.Common())[0]) {
						bad = "CID and data of the emitted section come from different blocks"
					}
				}
			}
			r.Check(bad == "", key, c.Pos(in.Pos()), "LdWrite(w, <cid>.Bytes(), <data of the same block>)", bad)
		})
	}
}

// lenSumPhi recognises `for _, s := range d { sum += uint64(len(s)) }` and returns the accumulator phi.
func lenSumPhi(fn *ssa.Function, d *ssa.Parameter) *ssa.Phi {
	var found *ssa.Phi
	eachInstr(fn, func(in ssa.Instruction) {
		phi, ok := in.(*ssa.Phi)
		if !ok || len(phi.Edges) != 2 || !isIntegral(phi.Type()) {
			return
		}
		var add *ssa.BinOp
		zero := false
		for _, e := range phi.Edges {
			if k, ok := constInt(e); ok && k == 0 {
				zero = true
			} else if b, ok := e.(*ssa.BinOp); ok && b.Op == token.ADD {
				add = b
			}
		}
		if !zero || add == nil {
			return
		}
		var other ssa.Value
		switch {
		case add.X == ssa.Value(phi):
			other = add.Y
		case add.Y == ssa.Value(phi):
			other = add.X
		default:
			return
		}
		lc, _ := callOf(strip(other))
		if lc == nil {
			return
		}
		if b, ok := lc.Call.Value.(*ssa.Builtin); !ok || b.Name() != "len" {
			return
		}
		// len of an element of d
		el := canon(lc.Call.Args[0])
		u, ok := el.(*ssa.UnOp)
		if !ok {
			return
		}
		ia, ok := u.X.(*ssa.IndexAddr)
		if !ok || canon(ia.X) != ssa.Value(d) {
			return
		}
		found = phi
		allLenSums[phi] = true
	})
	return found
}

// allLenSums: every accumulator lenSumPhi has recognised (a function may hold the loop twice after
// two helpers that both add up the parts were inlined back: the sums are the same number).
var allLenSums = map[*ssa.Phi]bool{}

// partsSum returns the value in fn that is S = sum of len(part) over the variadic
// parameter d: the accumulator phi of an in-line loop, or the result of a
// same-package helper that computes exactly that over the slice it is handed.
func partsSum(fn *ssa.Function, d *ssa.Parameter) ssa.Value {
	if phi := lenSumPhi(fn, d); phi != nil {
		return phi
	}
	var out ssa.Value
	eachInstr(fn, func(in ssa.Instruction) {
		ci, ok := in.(*ssa.Call)
		if !ok || out != nil {
			return
		}
		h := staticTarget(ci.Common())
		if h == nil || h.Blocks == nil || h.Pkg != fn.Pkg || len(h.Params) != 1 || len(ci.Call.Args) != 1 || canon(ci.Call.Args[0]) != ssa.Value(d) {
			return
		}
		hp := lenSumPhi(h, h.Params[0])
		if hp == nil {
			return
		}
		for _, ret := range returnsOf(h) {
			if len(ret.Results) != 1 || canon(ret.Results[0]) != ssa.Value(hp) {
				return
			}
		}
		out = ci
	})
	return out
}

func ruleR01b(c *Ctx, r *Report) {
	for _, mod := range []string{pkgV1Util, pkgRootUtil} {
		// ---- LdSize
		if fn, err := c.Func(mod, "", "LdSize"); err != nil {
			r.InfraFail("%v", err)
		} else {
			key := "framing@" + fnKey(fn)
			bad := ""
			sum := partsSum(fn, fn.Params[0])
			if sum == nil {
				bad = "S = sum of len(part) accumulator not recognised"
			} else {
				env := &AffEnv{name: func(v ssa.Value) string {
					if canon(v) == sum {
						return "S"
					}
					if ph, ok := canon(v).(*ssa.Phi); ok && allLenSums[ph] && ph.Parent() == fn {
						return "S"
					}
					return ""
				}}
				for _, ret := range returnsOf(fn) {
					a := env.of(ret.Results[0])
					if !a.equal(affAtom("S").add(affAtom("U(0 +1*S)"), 1)) {
						bad = "LdSize returns " + a.String() + "; a section occupies S + U(S) bytes"
					}
				}
			}
			r.Check(bad == "", key, c.Pos(fn.Pos()), "returns S + U(S)", bad)
		}
		// ---- LdWrite
		if fn, err := c.Func(mod, "", "LdWrite"); err != nil {
			r.InfraFail("%v", err)
		} else {
			key := "framing@" + fnKey(fn)
			bad := ""
			sum := partsSum(fn, fn.Params[1])
			var writes []*ssa.Call
			eachInstr(fn, func(in ssa.Instruction) {
				if ci, ok := in.(*ssa.Call); ok && ci.Common().IsInvoke() && ci.Common().Method.Name() == "Write" {
					writes = append(writes, ci)
				}
			})
			switch {
			case sum == nil:
				bad = "S accumulator not recognised"
			case len(writes) != 2:
				bad = fmt.Sprintf("expected the prefix write and the per-part write, found %d writes", len(writes))
			default:
				// first write: buf[:n], n = PutUvarint(buf, S)
				sl, ok := canon(writes[0].Call.Args[0]).(*ssa.Slice)
				if !ok || sl.High == nil {
					bad = "the first write is not buf[:n]"
				} else {
					pc, _ := callOf(canon(sl.High))
					isSum := func(v ssa.Value) bool {
						if canon(v) == sum {
							return true
						}
						ph, ok := canon(v).(*ssa.Phi)
						return ok && allLenSums[ph] && ph.Parent() == fn
					}
					if pc == nil || calleeFunc(pc.Common()) == nil || calleeFunc(pc.Common()).Name() != "PutUvarint" || !isSum(pc.Call.Args[1]) || !sameValue(pc.Call.Args[0], sl.X) && !sameSliceBase(pc.Call.Args[0], sl.X) {
						bad = "the length prefix is not the uvarint of S (sum of the part lengths)"
					}
				}
				// second write: the range element of d
				if bad == "" {
					el := canon(writes[1].Call.Args[0])
					u, ok := el.(*ssa.UnOp)
					ia, ok2 := (ssa.Value)(nil), false
					if ok {
						var x *ssa.IndexAddr
						x, ok2 = u.X.(*ssa.IndexAddr)
						if ok2 {
							ia = x.X
						}
					}
					if !ok || !ok2 || canon(ia) != ssa.Value(fn.Params[1]) {
						bad = "the parts are not written from the variadic argument in range order"
					}
					if bad == "" && !writes[0].Block().Dominates(writes[1].Block()) {
						bad = "a part can be written before the length prefix"
					}
				}
			}
			r.Check(bad == "", key, c.Pos(fn.Pos()), "writes uvarint(S) then each part in order", bad)
		}
		// ---- LdRead
		if fn, err := c.Func(mod, "", "LdRead"); err != nil {
			r.InfraFail("%v", err)
		} else {
			key := "framing@" + fnKey(fn)
			bad := ""
			var mk *ssa.MakeSlice
			eachInstr(fn, func(in ssa.Instruction) {
				if m, ok := in.(*ssa.MakeSlice); ok {
					mk = m
				}
			})
			rf := callsToFunc(fn, "io", "", "ReadFull")
			if mk == nil || len(rf) != 1 {
				bad = "make + io.ReadFull not found"
			} else {
				// the length: result of LdReadSize(r, ...) (v2) or binary.ReadUvarint(r) (root)
				lc, li := callOf(canon(mk.Len))
				if lc == nil || li != 0 {
					bad = "the buffer is not sized by the decoded length"
				} else {
					f := calleeFunc(lc.Common())
					if !(funcIs(f, pkgV1Util, "", "LdReadSize") || funcIs(f, "encoding/binary", "", "ReadUvarint") || funcIs(f, pkgVarint, "", "ReadUvarint")) {
						bad = "the buffer is sized by something other than the section's decoded length"
					} else if !sameValue(stripIface(lc.Call.Args[0]), stripIface(rf[0].Common().Args[0])) {
						bad = "the body is read from a different reader than the length"
					} else if wholeSliceOf(canon(rf[0].Common().Args[1])) != ssa.Value(mk) {
						bad = "io.ReadFull does not fill the buffer that was sized by the length"
					}
				}
				if bad == "" {
					for _, ret := range returnsOf(fn) {
						for _, leaf := range phiLeaves(ret.Results[0]) {
							if !isNilConst(leaf) && leaf != ssa.Value(mk) {
								bad = "LdRead returns something other than the filled buffer"
							}
						}
					}
				}
			}
			r.Check(bad == "", key, c.Pos(fn.Pos()), "make(l) filled by io.ReadFull from the same reader, returned whole", bad)
		}
		// ---- ReadNode
		if fn, err := c.Func(mod, "", "ReadNode"); err != nil {
			r.InfraFail("%v", err)
		} else {
			key := "framing@" + fnKey(fn)
			bad := ""
			lr := callsToFunc(fn, mod, "", "LdRead")
			if len(lr) != 1 {
				bad = "LdRead call not found"
			} else {
				data := extractOf(lr[0].Value(), 0)
				var dec *ssa.Call
				eachInstr(fn, func(in ssa.Instruction) {
					if ci, ok := in.(*ssa.Call); ok {
						f := calleeFunc(ci.Common())
						if funcIs(f, pkgCid, "", "CidFromBytes") || funcIs(f, pkgCid, "", "CidFromReader") {
							dec = ci
						}
					}
				})
				if dec == nil {
					bad = "CID decoder call not found"
				} else {
					// decoder applied to data (directly or via bytes.NewReader(data))
					src := canon(stripIface(dec.Call.Args[0]))
					if nr, _ := callOf(src); nr != nil && funcIs(calleeFunc(nr.Common()), "bytes", "", "NewReader") {
						src = canon(nr.Call.Args[0])
					}
					if src != data {
						bad = "the CID is not decoded from the section bytes just read"
					}
					n := extractOf(dec, 0)
					cidRes := extractOf(dec, 1)
					for _, ret := range returnsOf(fn) {
						if !isNilConst(ret.Results[2]) {
							continue
						}
						sl, ok := ret.Results[1].(*ssa.Slice)
						if !ok || canon(sl.X) != data || sl.High != nil || sl.Low == nil || canon(sl.Low) != n {
							bad = "the data returned is not data[n:] with n the byte count the CID decoder reported"
						}
						if canon(ret.Results[0]) != cidRes {
							bad = "the CID returned is not the one decoded from this section"
						}
					}
				}
			}
			r.Check(bad == "", key, c.Pos(fn.Pos()), "returns (cid decoded from data, data[n:])", bad)
		}
	}
}

func sameSliceBase(a, b ssa.Value) bool {
	// buf and buf[:] style aliases of one make/alloc
	ra, rb := canon(a), canon(b)
	if sa, ok := ra.(*ssa.Slice); ok {
		ra = canon(sa.X)
	}
	if sb, ok := rb.(*ssa.Slice); ok {
		rb = canon(sb.X)
	}
	return ra == rb
}

func ruleR01c(c *Ctx, r *Report) {
	for _, mod := range []struct{ pkg, util string }{{pkgV1, pkgV1Util}, {modRoot, pkgRootUtil}} {
		for _, name := range []string{"WriteHeader", "HeaderSize", "ReadHeader"} {
			fn, err := c.Func(mod.pkg, "", name)
			if err != nil {
				r.InfraFail("%v", err)
				continue
			}
			key := "header-sibling@" + fnKey(fn)
			bad := ""
			switch name {
			case "WriteHeader", "HeaderSize":
				dumps := callsIn(fn, func(f *types.Func, _ *ssa.CallCommon) bool { return f != nil && f.Name() == "DumpObject" })
				var sinks []ssa.CallInstruction
				if name == "WriteHeader" {
					sinks = callsToFunc(fn, mod.util, "", "LdWrite")
				} else {
					sinks = callsToFunc(fn, mod.util, "", "LdSize")
				}
				if len(dumps) != 1 || len(sinks) != 1 {
					bad = "not of the form " + map[string]string{"WriteHeader": "LdWrite(w, cbor.DumpObject(h))", "HeaderSize": "LdSize(cbor.DumpObject(h))"}[name] + ": the announced header size and the written header can diverge"
				} else {
					if canon(stripIface(dumps[0].Common().Args[0])) != ssa.Value(fn.Params[0]) {
						bad = "DumpObject is not applied to the header argument"
					}
					elems := sliceLiteralElems(sinks[0].Common().Args[len(sinks[0].Common().Args)-1])
					if len(elems) != 1 || canon(elems[0]) != ssa.Value(extractOf(dumps[0].Value(), 0)) {
						bad = "the framing function is not applied to exactly the cbor encoding"
					}
					if name == "HeaderSize" {
						for _, ret := range returnsOf(fn) {
							if isNilConst(ret.Results[1]) && canon(ret.Results[0]) != ssa.Value(sinks[0].Value()) {
								bad = "HeaderSize returns something other than LdSize(encoding)"
							}
						}
					}
				}
			case "ReadHeader":
				lr := callsToFunc(fn, mod.util, "", "LdRead")
				dec := callsIn(fn, func(f *types.Func, _ *ssa.CallCommon) bool { return f != nil && f.Name() == "DecodeInto" })
				if len(lr) != 1 || len(dec) != 1 {
					bad = "not of the form cbor.DecodeInto(LdRead(r), &header)"
				} else if canon(dec[0].Common().Args[0]) != ssa.Value(extractOf(lr[0].Value(), 0)) {
					bad = "DecodeInto is not applied to the bytes LdRead returned"
				}
			}
			r.Check(bad == "", key, c.Pos(fn.Pos()), "framing of the cbor encoding of the header", bad)
		}
	}
	// struct identity
	a, err1 := c.Named(pkgV1, "CarHeader")
	b, err2 := c.Named(modRoot, "CarHeader")
	if err1 != nil || err2 != nil {
		r.InfraFail("%v %v", err1, err2)
		return
	}
	sa, sb := a.Underlying().(*types.Struct), b.Underlying().(*types.Struct)
	bad := ""
	if sa.NumFields() != sb.NumFields() {
		bad = fmt.Sprintf("field count differs (%d vs %d)", sa.NumFields(), sb.NumFields())
	} else {
		for i := 0; i < sa.NumFields(); i++ {
			if sa.Field(i).Name() != sb.Field(i).Name() || !types.Identical(sa.Field(i).Type(), sb.Field(i).Type()) || sa.Tag(i) != sb.Tag(i) {
				bad = fmt.Sprintf("field %d differs: %s %s vs %s %s", i, sa.Field(i).Name(), sa.Field(i).Type(), sb.Field(i).Name(), sb.Field(i).Type())
			}
		}
	}
	r.Check(bad == "", "header-struct-pair", "-", "car.CarHeader and v2/internal/carv1.CarHeader are identical field-for-field (the cbor codec keys on field names)", "the two CarHeader structs diverge: "+bad+"; headers written by one module are not read back by the other")
}

// ruleR01e: from the success outcome of cr.Next() every path back to the next
// iteration passes a store of the block (Put, or append to the batch).
func ruleR01e(c *Ctx, r *Report) {
	for _, m := range []string{pkgV1, modRoot} {
		for _, name := range []string{"loadCarFast", "loadCarSlow"} {
			fn, err := c.Func(m, "", name)
			if err != nil {
				r.InfraFail("%v", err)
				continue
			}
			key := "loader-stores-all@" + fnKey(fn)
			nexts := callsToFunc(fn, m, "CarReader", "Next")
			if len(nexts) != 1 {
				r.Undec(key, c.Pos(fn.Pos()), "expected one cr.Next()")
				continue
			}
			blk := extractOf(nexts[0].Value(), 0)
			var sinks []ssa.Instruction
			eachInstr(fn, func(in ssa.Instruction) {
				ci, ok := in.(ssa.CallInstruction)
				if !ok {
					return
				}
				cc := ci.Common()
				if cc.IsInvoke() && cc.Method.Name() == "Put" && len(cc.Args) == 2 && canon(cc.Args[1]) == blk {
					sinks = append(sinks, in)
				}
				if b, ok := cc.Value.(*ssa.Builtin); ok && b.Name() == "append" && len(cc.Args) == 2 {
					for _, e := range sliceLiteralElems(cc.Args[1]) {
						if canon(e) == blk {
							sinks = append(sinks, in)
						}
					}
				}
			})
			okEdges := condEdges(fn, errNilCond(errOfCall(nexts[0]), true))
			bad := ""
			if len(sinks) == 0 || len(okEdges) == 0 {
				bad = "the block returned by Next is never stored"
			} else {
				cut := EdgeSet{}
				for _, s := range sinks {
					for i := range s.Block().Succs {
						cut[Edge{From: s.Block(), Succ: i}] = true
					}
				}
				for _, e := range okEdges {
					inSink := false
					for _, s := range sinks {
						if s.Block() == e.From.Succs[e.Succ] {
							inSink = true
						}
					}
					if !inSink && reachFromEdge(fn, e, cut)[nexts[0].Block()] {
						bad = "after a successful Next the loop can continue without having stored the block (e.g. when a batch is full): the block is silently lost"
					}
				}
			}
			r.Check(bad == "", key, c.Pos(fn.Pos()), "every block read is stored before the next read", bad)
		}
	}
}

// ruleR01f: in PutMany the de-duplication decision of a block is followed by its
// insertion before the decision for the next block is taken.
func ruleR01f(c *Ctx, r *Report) {
	fn, err := c.Func(pkgBS, "ReadWrite", "PutMany")
	if err != nil {
		r.InfraFail("%v", err)
		return
	}
	key := "decide-insert-per-block@" + fnKey(fn)
	sp := callsToFunc(fn, pkgStore, "", "ShouldPut")
	ins := callsToFunc(fn, pkgIndex, "InsertionIndex", "InsertNoReplace")
	if len(sp) != 1 || len(ins) == 0 {
		r.Viol(key, c.Pos(fn.Pos()), "expected exactly one ShouldPut decision point and an insertion in PutMany")
		return
	}
	should := extractOf(sp[0].Value(), 0)
	yes := condEdges(fn, func(base ssa.Value) (bool, bool) {
		if canon(base) == should {
			return true, true
		}
		return false, false
	})
	cut := EdgeSet{}
	for _, i := range ins {
		for s := range i.Block().Succs {
			cut[Edge{From: i.Block(), Succ: s}] = true
		}
	}
	bad := ""
	if len(yes) == 0 {
		bad = "the decision of ShouldPut is not branched on"
	}
	for _, e := range yes {
		if reachFromEdge(fn, e, cut)[sp[0].Block()] {
			bad = "after deciding to put a block, the next block's decision can be taken before this block is in the index: a block repeated within one PutMany call is written twice"
		}
	}
	r.Check(bad == "", key, c.Pos(sp[0].Pos()), "decision -> write -> insert completes before the next decision", bad)
}

func ruleR01m(c *Ctx, r *Report) {
	n := 0
	for _, fn := range c.RepoFuncs() {
		ord := 0
		eachInstr(fn, func(in ssa.Instruction) {
			ci, ok := in.(*ssa.Call)
			if !ok || !funcIs(calleeFunc(ci.Common()), "sync", "Pool", "Put") {
				return
			}
			args := ci.Call.Args
			v := stripIface(args[len(args)-1])
			ld, ok := v.(*ssa.UnOp)
			if !ok || ld.Op != token.MUL {
				return // a local: nothing keeps it
			}
			fa, ok := ld.X.(*ssa.FieldAddr)
			if !ok {
				return
			}
			n++
			ord++
			key := fmt.Sprintf("pool-release@%s#%d", fnKey(fn), ord)
			// the struct the field belongs to must be the shared one, not a by-value copy of it
			if al, isAl := canon(fa.X).(*ssa.Alloc); isAl {
				if _, isStruct := al.Type().Underlying().(*types.Pointer).Elem().Underlying().(*types.Struct); isStruct {
					r.Viol(key, c.Pos(ci.Pos()), "the object put back into the pool is read from a by-value copy of the struct (value receiver or local copy): clearing the field of the copy leaves the original pointing at an object it no longer owns")
					return
				}
			}
			cleared := false
			after := false
			for _, x := range ci.Block().Instrs {
				if x == ssa.Instruction(ci) {
					after = true
					continue
				}
				if !after {
					continue
				}
				if st, ok := x.(*ssa.Store); ok && isNilConst(st.Val) {
					if fa2, ok := st.Addr.(*ssa.FieldAddr); ok && fa2.Field == fa.Field && canon(fa2.X) == canon(fa.X) {
						cleared = true
					}
				}
			}
			fv := fieldVar(fa.X.Type(), fa.Field)
			name := "?"
			if fv != nil {
				name = fv.Name()
			}
			r.Check(cleared, key, c.Pos(ci.Pos()), "field "+name+" is set to nil right after the object goes back to the pool",
				"the object read from field "+name+" is put back into the pool but the field keeps pointing at it: the next call uses (and re-pools) an object that another reader may already own")
		})
	}
	r.Count("Pool.Put of an object held in a struct field", n)
}

// wholeSliceOf sees through `b[:]` (no bounds): the slice is the same bytes.
func wholeSliceOf(v ssa.Value) ssa.Value {
	for i := 0; i < 4; i++ {
		sl, ok := v.(*ssa.Slice)
		if !ok || sl.Low != nil || sl.High != nil || sl.Max != nil {
			return v
		}
		v = canon(sl.X)
	}
	return v
}
