package main

// Set-once fields. A maintainer may keep a value that cannot change in a new field — `asCarV1:
// opts.WriteAsCarV1` in the constructor's literal, read wherever opts.WriteAsCarV1 was read. Such a
// field is a named local of the object: every store to it is in the function that allocates the
// object, into the fresh object itself. The rules name options and pinned fields; a read of a
// set-once field is resolved to what was stored (setOnceSources), so that `b.asCarV1` is recognised
// as Options.WriteAsCarV1 wherever a rule asks which field a value is a load of.

import (
	"go/token"
	"go/types"

	"golang.org/x/tools/go/ssa"
)

// setOnce: field -> the values stored into it at construction. Set by the latest load.
var setOnce = map[*types.Var][]ssa.Value{}

func computeSetOnce(c *Ctx) {
	setOnce = map[*types.Var][]ssa.Value{}
	type acc struct {
		vals []ssa.Value
		bad  bool
	}
	seen := map[*types.Var]*acc{}
	for _, fn := range c.RepoFuncs() {
		eachInstr(fn, func(in ssa.Instruction) {
			st, ok := in.(*ssa.Store)
			if !ok {
				return
			}
			fa, ok := st.Addr.(*ssa.FieldAddr)
			if !ok {
				return
			}
			fv := fieldVar(fa.X.Type(), fa.Field)
			if fv == nil || fv.Pkg() == nil || !isRepoPkg(fv.Pkg().Path()) || isPinnedField(fa.X.Type(), fv) {
				return
			}
			a := seen[fv]
			if a == nil {
				a = &acc{}
				seen[fv] = a
			}
			if al, fresh := fa.X.(*ssa.Alloc); fresh && al.Parent() == fn {
				a.vals = append(a.vals, st.Val)
			} else {
				a.bad = true
			}
		})
	}
	for fv, a := range seen {
		if !a.bad && len(a.vals) > 0 {
			setOnce[fv] = a.vals
		}
	}
}

// isPinnedField: the field is one the pinned tree has (of a pinned type, or of the pinned type a
// renamed type stands for).
func isPinnedField(t types.Type, fv *types.Var) bool {
	n := namedOf(t)
	if n == nil || n.Obj().Pkg() == nil {
		return true // fields of anonymous structs carry no rule
	}
	pp := n.Obj().Pkg().Path()
	name := n.Obj().Name()
	if baselineTypes[pp+"\t"+name] {
		return baselineTypes[pp+"\tfield:"+name+"."+fv.Name()]
	}
	for k, v := range typeRenames {
		if v == name && len(k) > len(pp) && k[:len(pp)+1] == pp+"\t" {
			return baselineTypes[pp+"\tfield:"+k[len(pp)+1:]+"."+fv.Name()]
		}
	}
	return false // a new type: all its fields are new
}

// setOnceSource: v is a load of a set-once field with one stored value: that value (which lives in
// the constructing function), stripped; nil otherwise.
func setOnceSource(v ssa.Value) ssa.Value {
	var fv *types.Var
	switch x := v.(type) {
	case *ssa.UnOp:
		if x.Op != token.MUL {
			return nil
		}
		fa, ok := x.X.(*ssa.FieldAddr)
		if !ok {
			return nil
		}
		fv = fieldVar(fa.X.Type(), fa.Field)
	case *ssa.Field:
		fv = fieldVar(x.X.Type(), x.Field)
	default:
		return nil
	}
	if fv == nil {
		return nil
	}
	vals := setOnce[fv]
	if len(vals) == 0 {
		return nil
	}
	first := canon(vals[0])
	for _, w := range vals[1:] {
		// several constructors: all must store a load of the same field
		f1, _ := fieldOfLoadRaw(first)
		f2, _ := fieldOfLoadRaw(canon(w))
		if f1 == nil || f1 != f2 {
			return nil
		}
	}
	return first
}

// Immutable package-level variables. `var preamble = int64(PragmaSize + HeaderSize)` or a table
// that is initialised once and only read is a named constant; a rule that asks for the constant
// finds it through the variable (immutableInit), and a store into one outside the package
// initialiser makes it an ordinary variable again (R13k reports those on its own terms).

// globalInit: package-level variable of the repository -> the one value its package initialiser
// stores into it, when nothing else in the repository writes it or takes its address.
var globalInit = map[*ssa.Global]ssa.Value{}

// globalFieldInit: for an immutable struct-typed variable, field -> the value the initialiser stores.
var globalFieldInit = map[*ssa.Global]map[*types.Var]ssa.Value{}

func computeImmutableGlobals(c *Ctx) {
	globalInit = map[*ssa.Global]ssa.Value{}
	globalFieldInit = map[*ssa.Global]map[*types.Var]ssa.Value{}
	mutable := map[*ssa.Global]bool{}
	inits := map[*ssa.Global][]ssa.Value{}
	fieldInits := map[*ssa.Global]map[*types.Var][]ssa.Value{}
	var funcs []*ssa.Function
	funcs = append(funcs, c.RepoFuncs()...)
	have := map[*ssa.Function]bool{}
	for _, f := range funcs {
		have[f] = true
	}
	for _, sp := range c.SSA {
		if f := sp.Func("init"); f != nil && !have[f] {
			funcs = append(funcs, f)
		}
	}
	onlyLoaded := func(v ssa.Value) bool {
		refs := v.Referrers()
		if refs == nil {
			return false
		}
		for _, r := range *refs {
			switch y := r.(type) {
			case *ssa.UnOp:
				if y.Op != token.MUL {
					return false
				}
			case *ssa.DebugRef:
			default:
				return false
			}
		}
		return true
	}
	for _, fn := range funcs {
		isInit := fn.Name() == "init" && fn.Synthetic != "" && fn.Parent() == nil
		eachInstr(fn, func(in ssa.Instruction) {
			for _, op := range in.Operands(nil) {
				g, ok := (*op).(*ssa.Global)
				if !ok || g.Pkg == nil || !isRepoPkg(g.Pkg.Pkg.Path()) {
					continue
				}
				switch x := in.(type) {
				case *ssa.UnOp:
					if x.Op == token.MUL {
						continue
					}
				case *ssa.Store:
					if isInit && x.Addr == ssa.Value(g) {
						inits[g] = append(inits[g], x.Val)
						continue
					}
				case *ssa.FieldAddr:
					if x.X == ssa.Value(g) {
						if onlyLoaded(x) {
							continue
						}
						if isInit {
							ok := true
							for _, r := range *x.Referrers() {
								if st, isSt := r.(*ssa.Store); isSt && st.Addr == ssa.Value(x) {
									fv := fieldVar(x.X.Type(), x.Field)
									if fieldInits[g] == nil {
										fieldInits[g] = map[*types.Var][]ssa.Value{}
									}
									fieldInits[g][fv] = append(fieldInits[g][fv], st.Val)
								} else if u, isU := r.(*ssa.UnOp); !(isU && u.Op == token.MUL) {
									if _, isDbg := r.(*ssa.DebugRef); !isDbg {
										ok = false
									}
								}
							}
							if ok {
								continue
							}
						}
					}
				case *ssa.DebugRef:
					continue
				}
				mutable[g] = true
			}
		})
	}
	for g, vs := range inits {
		if !mutable[g] && len(vs) == 1 {
			globalInit[g] = vs[0]
		}
	}
	for g, fm := range fieldInits {
		if mutable[g] || len(inits[g]) > 0 {
			continue
		}
		m := map[*types.Var]ssa.Value{}
		for fv, vs := range fm {
			if len(vs) == 1 {
				m[fv] = vs[0]
			}
		}
		globalFieldInit[g] = m
	}
}

// immutableInit: v is a load of an immutable package-level variable: what its initialiser stored.
func immutableInit(v ssa.Value) ssa.Value {
	u, ok := v.(*ssa.UnOp)
	if !ok || u.Op != token.MUL {
		return nil
	}
	switch a := u.X.(type) {
	case *ssa.Global:
		return globalInit[a]
	case *ssa.FieldAddr:
		if g, ok := a.X.(*ssa.Global); ok {
			if m := globalFieldInit[g]; m != nil {
				return m[fieldVar(a.X.Type(), a.Field)]
			}
		}
	}
	return nil
}

// immutableMapEntries: v is a lookup table — a load of an immutable package-level map whose
// initialiser fills it with constant keys and values and which nothing updates or deletes from.
// It returns the entries rendered as key -> value (constant.ExactString), nil otherwise.
func immutableMapEntries(c *Ctx, v ssa.Value) map[string]string {
	u, ok := v.(*ssa.UnOp)
	if !ok || u.Op != token.MUL {
		return nil
	}
	g, ok := u.X.(*ssa.Global)
	if !ok {
		return nil
	}
	mk, ok := globalInit[g].(*ssa.MakeMap)
	if !ok {
		return nil
	}
	// nothing updates the map through a load of the variable
	for _, fn := range c.RepoFuncs() {
		bad := false
		eachInstr(fn, func(in ssa.Instruction) {
			switch x := in.(type) {
			case *ssa.MapUpdate:
				if l, ok := x.Map.(*ssa.UnOp); ok && l.X == ssa.Value(g) {
					bad = true
				}
			case *ssa.Call:
				if b, ok := x.Call.Value.(*ssa.Builtin); ok && (b.Name() == "delete" || b.Name() == "clear") && len(x.Call.Args) > 0 {
					if l, ok := x.Call.Args[0].(*ssa.UnOp); ok && l.X == ssa.Value(g) {
						bad = true
					}
				}
			}
		})
		if bad {
			return nil
		}
	}
	out := map[string]string{}
	for _, r := range *mk.Referrers() {
		switch x := r.(type) {
		case *ssa.MapUpdate:
			k, kok := x.Key.(*ssa.Const)
			val, vok := x.Value.(*ssa.Const)
			if !kok || !vok || k.Value == nil || val.Value == nil {
				return nil
			}
			out[k.Value.ExactString()] = val.Value.ExactString()
		case *ssa.Store, *ssa.DebugRef:
		default:
			return nil
		}
	}
	return out
}
