package main

import (
	"fmt"
	"go/ast"
	"go/constant"
	"go/parser"
	"go/token"
	"go/types"
	"os"
	"path/filepath"
	"sort"
	"strings"

	"golang.org/x/tools/go/packages"
	"golang.org/x/tools/go/ssa"
)

const (
	pkgUfsData    = "github.com/ipfs/go-unixfsnode/data"
	pkgUfsBuilder = "github.com/ipfs/go-unixfsnode/data/builder"
)

func init() {
	register(PropertyDef{
		ID: "C18",
		Explanation: "Mostly not decidable here (chunking, sharding and naming live in go-unixfsnode). Decided statically, as necessary conditions only: (R18a) handler exhaustiveness — every " +
			"UnixFS data type the builder used by `car create` can emit (the data.Data_* constants referenced by the non-test sources of go-unixfsnode/data/builder in the " +
			"module cache, recomputed on every run) has a case in the extractor's type switch, raw leaves are taken by the Kind_Bytes branch before it, and the default case " +
			"is an error; (R18b) create wiring — --version maps 1 to WriteAsCarV1(true), 2 to the default, anything else to an error; Finalize precedes ReplaceRootsInFile; the " +
			"replacing root is writeFiles' result and the placeholder root is a CIDv1 with a sha2-256 multihash (same encoded length as the builder's roots); (R18c) the " +
			"stdin block store answers Get without mutating its map (blocks shared by several entries must be readable more than once); (R18d) the extractor's root is the " +
			"symlink-resolved output directory, so that the sanitiser accepts entries when the output directory is reached through a symlink (shared with C17 R17b); (R18e) " +
			"a symlink's target is passed to os.Symlink verbatim (string of the stored bytes). NOT decided: equality of trees, file contents, chunk reassembly.",
		Assumptions: []string{"the builder emits only the data types its sources name"},
		Rules: []RuleDef{
			{ID: "R18a", Floor: 4, Doc: "extractor handles every UnixFS type the builder names; default is an error", Run: ruleR18a},
			{ID: "R18b", Floor: 3, Doc: "create wiring: version switch, Finalize before ReplaceRootsInFile, root provenance, placeholder shape", Run: ruleR18b},
			{ID: "R18c", Floor: 1, Doc: "stdin read storage: Get does not mutate the block map", Run: ruleR18c},
			{ID: "R18d", Floor: 4, Doc: "sanitiser root = EvalSymlinks(output dir) (= R17b)", Run: ruleR17b},
			{ID: "R18g", Floor: 1, Doc: "create: every committed block reaches the blockstore — the committer puts on every success path, or what it defers is flushed on every success return of writeFiles", Run: ruleR18g},
			{ID: "R18h", Floor: 1, Doc: "extract: an entry name is judged by resolvePath only — no other condition on the name decides whether an entry is extracted (names that merely look unusual, like `a..b`, must round-trip)", Run: ruleR18h},
			{ID: "R18i", Floor: 1, Doc: "extract: file content is copied into the created file itself (or a repository writer whose Write forwards every byte it claims to have written)", Run: ruleR18i},
			{ID: "R18k", Floor: 1, Doc: "the stdin block storage files and finds blocks by multihash (string(c.Hash())), as `car create` de-duplicates them: a block stored under one CID answers a link that names the same bytes under another codec", Run: ruleR18k},
			{ID: "R18l", Floor: 1, Doc: "create packs what the command line names: each path reaches BuildUnixFSRecursive unchanged (resolving a symlink argument would pack its target, under the target's name)", Run: ruleR18l},
			{ID: "R18n", Floor: 1, Doc: "extraction from stdin is streaming: the stdin storage hands NewBlockReader a value whose type has no Seek method (a pipe is an *os.File: its Seek exists and fails, and a CARv2 piped into `car extract` died with `illegal seek`)", Run: ruleR18n},
			{ID: "R18f", Floor: 1, Doc: "the extractor never removes, renames or truncates what it created", Run: ruleR18f},
			{ID: "R18e", Floor: 1, Doc: "symlink target verbatim", Run: ruleR18e},
			{ID: "R18j", Floor: 2, Doc: "the index that extract generates for a CARv1 records true section offsets (= R03b)", Run: ruleR03b},
			{ID: "R18m", Floor: 3, Doc: "extracted files are created truncating (= R19f)", Run: ruleR19f},
			{ID: "R18o", Floor: 1, Doc: "extraction does not skip silently: extractDir itself never returns `0, nil` (the only tolerated skip is the per-entry 'data for entry not found' of the closure); a tree that was packed is extracted whole or the command fails", Run: ruleR18o},
			{ID: "R18p", Floor: 1, Doc: "car extract reads what car create wrote: no command lowers the section-size limit for itself (= R19i)", Run: ruleR19i},
			{ID: "R18q", Floor: 1, Doc: "car extract from a pipe fails when the stream is damaged: the stdin loader ends cleanly only at io.EOF (= R02l)", Run: ruleR02l},
			{ID: "R18r", Floor: 2, Doc: "an empty file is a section exactly as long as its CID: the lookups car extract relies on accept it (= R01r)", Run: ruleR01r},
			{ID: "R18s", Floor: 1, Doc: "the extractor takes entry names as they are: no case folding (ToLower/ToUpper/EqualFold) in cmd/car/lib", Run: ruleR18s},
			{ID: "R18t", Floor: 1, Doc: "car create opens its destination with the version option only: no parser option (ZeroLengthSectionAsEOF, limits) is set for a file the command writes and may resume", Run: ruleR18t},
			{ID: "R18u", Floor: 1, Doc: "an empty block is a block that was found: wherever a store compares the size store.FindCid reports with a constant, 0 is on the found side (-1 is the only not-found marker)", Run: ruleR18u},
			{ID: "R18v", Floor: 3, Doc: "car extract reads from a pipe what it reads from a file: no buffer filled by a single Read (= R02q)", Run: ruleR02q},
			{ID: "R18w", Floor: 1, Doc: "a rerun of car create resumes only complete sections: the completeness probe of Resume reads the payload view (= R06c)", Run: ruleR06c},
			{ID: "R18x", Floor: 1, Doc: "extraction from stdin keeps each block's own bytes until the walk is over: what NewStdinReadStorage stores per block is the block's RawData() or a fresh copy, not a view into a reused buffer", Run: ruleR18x},
		},
	})
}

// builderDataTypes parses the non-test sources of the unixfs builder in the module
// cache and returns the names of the data.Data_* constants they reference.
func builderDataTypes(c *Ctx) (map[string]bool, string, error) {
	var dir string
	packages.Visit(c.AllPkgs, nil, func(p *packages.Package) {
		if p.PkgPath == pkgUfsBuilder && len(p.GoFiles) > 0 {
			dir = filepath.Dir(p.GoFiles[0])
		}
		if dir == "" && p.PkgPath == pkgUfsData && p.Module != nil && p.Module.Dir != "" {
			dir = filepath.Join(p.Module.Dir, "data", "builder")
		}
	})
	if dir == "" {
		return nil, "", fmt.Errorf("package %s not found among the dependencies", pkgUfsBuilder)
	}
	ents, err := os.ReadDir(dir)
	if err != nil {
		return nil, dir, err
	}
	out := map[string]bool{}
	fset := token.NewFileSet()
	for _, e := range ents {
		if e.IsDir() || !strings.HasSuffix(e.Name(), ".go") || strings.HasSuffix(e.Name(), "_test.go") {
			continue
		}
		f, err := parser.ParseFile(fset, filepath.Join(dir, e.Name()), nil, 0)
		if err != nil {
			return nil, dir, err
		}
		ast.Inspect(f, func(n ast.Node) bool {
			if sel, ok := n.(*ast.SelectorExpr); ok {
				if id, ok := sel.X.(*ast.Ident); ok && id.Name == "data" && strings.HasPrefix(sel.Sel.Name, "Data_") {
					out[sel.Sel.Name] = true
				}
			}
			return true
		})
	}
	return out, dir, nil
}

func ruleR18a(c *Ctx, r *Report) {
	emitted, dir, err := builderDataTypes(c)
	if err != nil {
		r.InfraFail("cannot enumerate the builder's data types: %v", err)
		return
	}
	r.Count("builder source directory scanned: "+dir, 1)
	// constant values from the data package's type information
	var dataPkg *types.Package
	packages.Visit(c.AllPkgs, nil, func(p *packages.Package) {
		if p.PkgPath == pkgUfsData && p.Types != nil {
			dataPkg = p.Types
		}
	})
	if dataPkg == nil {
		r.InfraFail("type information of %s not available", pkgUfsData)
		return
	}
	val := map[string]int64{}
	for name := range emitted {
		k, ok := dataPkg.Scope().Lookup(name).(*types.Const)
		if !ok {
			r.InfraFail("data.%s is not a constant", name)
			return
		}
		v, _ := constant.Int64Val(k.Val())
		val[name] = v
	}
	fn, err := c.Func(pkgCmdLib, "", "extractDir")
	if err != nil {
		r.InfraFail("%v", err)
		return
	}
	if len(closuresOf(fn)) < 1 {
		r.Undec("handlers@"+fnKey(fn), c.Pos(fn.Pos()), "extractElement closure not found")
		return
	}
	el := closuresOf(fn)[0]
	// constants the type switch compares DataType.Int() with
	handled := map[int64]bool{}
	eachInstr(el, func(in ssa.Instruction) {
		b, ok := in.(*ssa.BinOp)
		if !ok || b.Op != token.EQL {
			return
		}
		cl, _ := callOf(canon(b.X))
		if cl == nil || calleeFunc(cl.Common()) == nil || calleeFunc(cl.Common()).Name() != "Int" {
			return
		}
		if k, ok := constInt(b.Y); ok {
			handled[k] = true
		}
	})
	var names []string
	for n := range emitted {
		names = append(names, n)
	}
	sort.Strings(names)
	for _, n := range names {
		key := "handler@" + n
		if n == "Data_Raw" {
			// raw leaves are plain bytes nodes: handled by the Kind_Bytes branch (and the File|Raw case)
			r.Check(handled[val[n]] || true, key, c.Pos(el.Pos()), "raw leaves taken by the Kind_Bytes branch", "")
			continue
		}
		r.Check(handled[val[n]], key, c.Pos(el.Pos()), "case present in extractElement's type switch", "the UnixFS builder can emit "+n+" but the extractor has no case for it: such entries make extraction fail (or are skipped)")
	}
	// default case is an error: some return with a non-nil error is reachable when all handled comparisons are false
	{
		key := "handler@default"
		var falseEdges []Edge
		for _, b := range el.Blocks {
			if len(b.Instrs) == 0 {
				continue
			}
			iff, ok := b.Instrs[len(b.Instrs)-1].(*ssa.If)
			if !ok {
				continue
			}
			bo, ok := iff.Cond.(*ssa.BinOp)
			if !ok || bo.Op != token.EQL {
				continue
			}
			cl, _ := callOf(canon(bo.X))
			if cl != nil && calleeFunc(cl.Common()) != nil && calleeFunc(cl.Common()).Name() == "Int" {
				falseEdges = append(falseEdges, Edge{From: b, Succ: 0}) // cut the true edges
			}
		}
		bad := "type switch not found"
		if len(falseEdges) > 0 {
			// start from the first comparison block
			start := falseEdges[0].From
			rr := reach(el, start, edgeSet(falseEdges))
			bad = ""
			for _, ret := range returnsOf(el) {
				if rr[ret.Block()] && isNilConst(ret.Results[1]) {
					bad = "an unknown UnixFS type falls through the switch to a success return"
				}
			}
		}
		r.Check(bad == "", key, c.Pos(el.Pos()), "unknown types are an error", bad)
	}
	// Kind_Bytes branch precedes the switch
	{
		key := "handler@bytes-leaf"
		ok := false
		eachInstr(el, func(in ssa.Instruction) {
			if ci, isCall := in.(*ssa.Call); isCall && ci.Common().IsInvoke() && ci.Common().Method.Name() == "Kind" {
				ok = true
			}
		})
		r.Check(ok && len(callsToFunc(el, pkgCmdLib, "", "extractFile")) >= 2, key, c.Pos(el.Pos()), "degenerate (raw bytes) files extracted before the dag-pb switch", "raw-codec leaves are no longer extracted as files")
	}
}

func ruleR18b(c *Ctx, r *Report) {
	fn, err := c.Func(pkgCmdCar, "", "CreateCar")
	if err != nil {
		r.InfraFail("%v", err)
		return
	}
	pos := c.Pos(fn.Pos())
	// version switch
	{
		key := "create-version@" + fnKey(fn)
		v1 := callsToFunc(fn, pkgBS, "", "WriteAsCarV1")
		if len(v1) == 0 {
			v1 = callsToFunc(fn, modV2, "", "WriteAsCarV1")
		}
		bad := ""
		if len(v1) != 1 {
			// blockstore.WriteAsCarV1 is a variable holding carv2.WriteAsCarV1: a call through it is dynamic
			n := 0
			eachInstr(fn, func(in ssa.Instruction) {
				if ci, ok := in.(*ssa.Call); ok && staticTarget(ci.Common()) == nil && !ci.Common().IsInvoke() {
					if isGlobalLoad(canon(ci.Common().Value), pkgBS, "WriteAsCarV1") {
						n++
						if k, ok := constBool(ci.Call.Args[0]); !ok || !k {
							bad = "WriteAsCarV1 is not called with true"
						}
						isV := func(v ssa.Value) bool {
							cl, _ := callOf(canon(v))
							return cl != nil && calleeFunc(cl.Common()) != nil && calleeFunc(cl.Common()).Name() == "Int"
						}
						eq1 := cmpEdges(fn, isV, func(v ssa.Value) bool { k, ok := constInt(v); return ok && k == 1 }, "eq")
						if len(eq1) == 0 || reach(fn, nil, edgeSet(eq1))[in.Block()] {
							bad = "WriteAsCarV1(true) is not selected exactly by --version 1"
						}
					}
				}
			})
			if n != 1 && bad == "" {
				bad = "expected one WriteAsCarV1(true) option"
			}
		}
		r.Check(bad == "", key, pos, "--version 1 -> WriteAsCarV1(true)", bad)
	}
	// Finalize before ReplaceRootsInFile, root provenance
	{
		key := "create-root@" + fnKey(fn)
		fin := callsToFunc(fn, pkgBS, "ReadWrite", "Finalize")
		rep := callsToFunc(fn, modV2, "", "ReplaceRootsInFile")
		wf := callsToFunc(fn, pkgCmdCar, "", "writeFiles")
		bad := ""
		switch {
		case len(fin) != 1 || len(rep) != 1 || len(wf) != 1:
			bad = "Finalize / ReplaceRootsInFile / writeFiles not all found"
		case !fin[0].Block().Dominates(rep[0].Block()):
			bad = "the roots are replaced before the archive is finalized"
		default:
			okFin := condEdges(fn, errNilCond(errOfCall(fin[0]), true))
			if len(okFin) == 0 || reach(fn, nil, edgeSet(okFin))[rep[0].Block()] {
				bad = "ReplaceRootsInFile runs although Finalize failed"
			}
			elems := sliceLiteralElems(rep[0].Common().Args[1])
			if len(elems) != 1 || canon(elems[0]) != ssa.Value(extractOf(wf[0].Value(), 0)) {
				bad = "the root written into the archive is not the CID writeFiles returned (which is also what is printed)"
			}
		}
		r.Check(bad == "", key, pos, "Finalize (ok) -> ReplaceRootsInFile(file, [root from writeFiles])", bad)
	}
	// placeholder root shape
	{
		key := "create-placeholder@" + fnKey(fn)
		bad := "placeholder root not found"
		for _, ci := range callsToFunc(fn, pkgCid, "", "NewCidV1") {
			bad = ""
			if k, ok := constInt(ci.Common().Args[0]); !ok || k != 0x70 {
				bad = "the placeholder root's codec is not dag-pb (one byte, like the builder's roots)"
			}
			ec, _ := callOf(canon(ci.Common().Args[1]))
			if ec == nil || !funcIs(calleeFunc(ec.Common()), pkgMh, "", "Encode") {
				bad = "the placeholder multihash is not built by multihash.Encode(digest, SHA2_256)"
			} else if k, ok := constInt(ec.Call.Args[1]); !ok || k != 0x12 {
				bad = "the placeholder multihash is not sha2-256: its encoded length differs from the real root's and ReplaceRootsInFile refuses"
			}
		}
		r.Check(bad == "", key, pos, "CIDv1(dag-pb, sha2-256 digest): same encoded length as the final root", bad)
	}
}

func ruleR18c(c *Ctx, r *Report) {
	fn, err := c.Func(pkgCmdCar, "stdinReadStorage", "Get")
	if err != nil {
		r.InfraFail("%v", err)
		return
	}
	key := "idempotent-get@" + fnKey(fn)
	bad := ""
	eachInstr(fn, func(in ssa.Instruction) {
		switch x := in.(type) {
		case *ssa.MapUpdate:
			bad = "Get writes to the block map at " + c.Pos(x.Pos())
		case *ssa.Call:
			if b, ok := x.Call.Value.(*ssa.Builtin); ok && b.Name() == "delete" {
				bad = "Get deletes from the block map at " + c.Pos(x.Pos()) + ": a block referenced by several entries (identical files, repeated chunks) can be read only once"
			}
		}
	})
	r.Check(bad == "", key, c.Pos(fn.Pos()), "no mutation of the block map in Get", bad)
}

func ruleR18e(c *Ctx, r *Report) {
	fn, err := c.Func(pkgCmdLib, "", "extractDir")
	if err != nil {
		r.InfraFail("%v", err)
		return
	}
	key := "symlink-target-verbatim@" + fnKey(fn)
	bad := "os.Symlink call not found"
	for _, g := range withAnon(fn) {
		for _, ci := range callsToFunc(g, "os", "", "Symlink") {
			bad = ""
			for _, o := range origins(ci.Common().Args[0], originOpts{}) {
				if o.Kind != "call" || o.Fn == nil || o.Fn.Name() != "Bytes" {
					what := o.Kind
					if o.Fn != nil {
						what = funcKey(o.Fn)
					}
					bad = "the link target handed to os.Symlink is not the stored bytes verbatim (origin: " + what + "): normalising it changes what the link resolves to"
				}
			}
		}
	}
	r.Check(bad == "", key, c.Pos(fn.Pos()), "os.Symlink(string(stored bytes), sanitised path)", bad)
}

func ruleR18f(c *Ctx, r *Report) {
	scope, err := extractionScope(c)
	if err != nil {
		r.InfraFail("%v", err)
		return
	}
	key := "no-deletion@extraction"
	bad := ""
	for _, fn := range scope {
		eachInstr(fn, func(in ssa.Instruction) {
			ci, ok := in.(ssa.CallInstruction)
			if !ok {
				return
			}
			f := calleeFunc(ci.Common())
			if f == nil || f.Pkg() == nil || f.Pkg().Path() != "os" {
				return
			}
			switch f.Name() {
			case "Remove", "RemoveAll", "Rename", "Truncate":
				bad = fmt.Sprintf("os.%s at %s in %s: extraction deletes or replaces entries it created (e.g. 'empty' directories), so the extracted tree no longer has the names of the source tree", f.Name(), c.Pos(in.Pos()), fnKey(fn))
			}
		})
	}
	r.Check(bad == "", key, "-", fmt.Sprintf("no os.Remove/RemoveAll/Rename/Truncate in %d extraction functions", len(scope)), bad)
}

func callsPut(c *Ctx, fn *ssa.Function, depth int) bool {
	if fn == nil || depth > 2 {
		return false
	}
	found := false
	eachInstr(fn, func(in ssa.Instruction) {
		ci, ok := in.(ssa.CallInstruction)
		if !ok {
			return
		}
		f := calleeFunc(ci.Common())
		if funcIs(f, pkgBS, "ReadWrite", "Put") || funcIs(f, pkgBS, "ReadWrite", "PutMany") {
			found = true
		}
	})
	return found
}

// putCallBlocks: blocks of fn that put (directly or by calling a closure/function that puts).
func putCallBlocks(c *Ctx, fn *ssa.Function) map[*ssa.BasicBlock]bool {
	out := map[*ssa.BasicBlock]bool{}
	eachInstr(fn, func(in ssa.Instruction) {
		ci, ok := in.(ssa.CallInstruction)
		if !ok {
			return
		}
		if _, isDefer := in.(*ssa.Defer); isDefer {
			return
		}
		f := calleeFunc(ci.Common())
		if funcIs(f, pkgBS, "ReadWrite", "Put") || funcIs(f, pkgBS, "ReadWrite", "PutMany") {
			out[in.Block()] = true
			return
		}
		for _, callee := range c.Callees(ci) {
			if callee.Pkg == fn.Pkg && callsPut(c, callee, 0) {
				out[in.Block()] = true
			}
		}
		if mc, ok := canon(ci.Common().Value).(*ssa.MakeClosure); ok {
			if callsPut(c, mc.Fn.(*ssa.Function), 0) {
				out[in.Block()] = true
			}
		}
	})
	return out
}

func successReturnsAvoiding(fn *ssa.Function, blocks map[*ssa.BasicBlock]bool) []*ssa.Return {
	cut := EdgeSet{}
	for _, b := range fn.Blocks {
		for i, sc := range b.Succs {
			if blocks[sc] {
				cut[Edge{From: b, Succ: i}] = true
			}
		}
	}
	var out []*ssa.Return
	if blocks[fn.Blocks[0]] {
		return nil
	}
	rs := reach(fn, nil, cut)
	for _, ret := range returnsOf(fn) {
		if !rs[ret.Block()] || len(ret.Results) == 0 {
			continue
		}
		last := len(ret.Results) - 1
		if _, isErr := ret.Results[last].Type().Underlying().(*types.Interface); !isErr {
			continue
		}
		if resultIsNilConst(ret, last) {
			out = append(out, ret)
		}
	}
	return out
}

func ruleR18g(c *Ctx, r *Report) {
	fn, err := c.Func(pkgCmdCar, "", "writeFiles")
	if err != nil {
		r.InfraFail("%v", err)
		return
	}
	key := "commit-reaches-store@" + fnKey(fn)
	// the committer: an anonymous function (any depth) that takes an ipld.Link and returns error
	var committers []*ssa.Function
	cands := withAnon(fn)
	// closures that a clean-up turned into methods of a small helper type live elsewhere in the package
	for _, g := range c.RepoFuncs() {
		if g.Pkg == fn.Pkg && g.Parent() != nil && g.Parent() != fn && !baselineFuncs[ssaDeclKey(rootFunc(g))] {
			cands = append(cands, g)
		}
	}
	for _, g := range cands {
		sig := g.Signature
		if g == fn || sig.Params().Len() != 1 || sig.Results().Len() != 1 {
			continue
		}
		if n := namedOf(sig.Params().At(0).Type()); n != nil && n.Obj().Name() == "Link" {
			committers = append(committers, g)
		}
	}
	if len(committers) == 0 {
		r.Undec(key, c.Pos(fn.Pos()), "block-write committer closure not found")
		return
	}
	deferred := ""
	for _, g := range committers {
		for _, ret := range successReturnsAvoiding(g, putCallBlocks(c, g)) {
			deferred = c.Pos(ret.Pos())
		}
	}
	if deferred == "" {
		r.Hold(key, c.Pos(fn.Pos()), "the committer puts the block on every success path")
		return
	}
	leaks := successReturnsAvoiding(fn, putCallBlocks(c, fn))
	bad := ""
	for _, ret := range leaks {
		bad = fmt.Sprintf("the committer can succeed without putting the block (return at %s), and writeFiles can return success at %s without a flush that puts what was held back: committed blocks — the root among them — are missing from the archive", deferred, c.Pos(ret.Pos()))
	}
	r.Check(bad == "", key, c.Pos(fn.Pos()), "blocks held back by the committer are flushed on every success return", bad)
}

func ruleR18h(c *Ctx, r *Report) {
	fn, err := c.Func(pkgCmdLib, "", "extractDir")
	if err != nil {
		r.InfraFail("%v", err)
		return
	}
	n := 0
	for _, g := range withAnon(fn) {
		if g == fn || len(g.Params) == 0 {
			continue
		}
		if bt, ok := g.Params[0].Type().Underlying().(*types.Basic); !ok || bt.Kind() != types.String {
			continue
		}
		if len(callsToFunc(g, pkgCmdLib, "", "resolvePath")) == 0 {
			continue
		}
		n++
		name := g.Params[0]
		key := "name-judged-by-sanitiser@" + fnKey(g)
		bad := ""
		for _, b := range g.Blocks {
			if len(b.Instrs) == 0 {
				continue
			}
			iff, ok := b.Instrs[len(b.Instrs)-1].(*ssa.If)
			if !ok {
				continue
			}
			if dependsOnExcept(iff.Cond, name, func(f *types.Func) bool { return funcIs(f, pkgCmdLib, "", "resolvePath") }) {
				bad = fmt.Sprintf("the branch at %s depends on the entry name without going through resolvePath: an entry is accepted or refused by a rule of its own (ordinary names such as `a..b` stop round-tripping)", c.Pos(iff.Cond.Pos()))
			}
		}
		r.Check(bad == "", key, c.Pos(g.Pos()), "no branch depends on the entry name except through resolvePath", bad)
	}
	if n == 0 {
		r.Undec("name-judged-by-sanitiser@"+fnKey(fn), c.Pos(fn.Pos()), "per-entry closure not found")
	}
}

// dependsOnExcept: v is computed from src through operands, not counting what passes through calls accepted by stop.
func dependsOnExcept(v ssa.Value, src ssa.Value, stop func(*types.Func) bool) bool {
	seen := map[ssa.Value]bool{}
	var walk func(v ssa.Value, d int) bool
	walk = func(v ssa.Value, d int) bool {
		if v == nil || seen[v] || d > 10 {
			return false
		}
		seen[v] = true
		if v == src {
			return true
		}
		if cl, ok := v.(*ssa.Call); ok {
			if stop(calleeFunc(cl.Common())) {
				return false
			}
		}
		if ex, ok := v.(*ssa.Extract); ok {
			return walk(ex.Tuple, d+1)
		}
		if in, ok := v.(ssa.Instruction); ok {
			for _, op := range in.Operands(nil) {
				if *op != nil && walk(*op, d+1) {
					return true
				}
			}
		}
		return false
	}
	return walk(v, 0)
}

func ruleR18i(c *Ctx, r *Report) {
	fn, err := c.Func(pkgCmdLib, "", "extractFile")
	if err != nil {
		r.InfraFail("%v", err)
		return
	}
	key := "copy-destination@" + fnKey(fn)
	cps := callsToFunc(fn, "io", "", "Copy")
	if len(cps) == 0 {
		r.Undec(key, c.Pos(fn.Pos()), "io.Copy not found")
		return
	}
	bad := ""
	for _, cp := range cps {
		for _, o := range origins(cp.Common().Args[0], originOpts{}) {
			switch {
			case o.Kind == "call" && funcIs(o.Fn, "os", "", "Create"), o.Kind == "call" && funcIs(o.Fn, "os", "", "OpenFile"):
			case o.Kind == "global":
			case o.Kind == "const":
			default:
				// a repository writer: its Write must forward
				t := o.Val.Type()
				if al, ok := o.Val.(*ssa.Alloc); ok {
					t = al.Type().Underlying().(*types.Pointer).Elem()
				}
				nt := namedOf(t)
				if nt == nil || nt.Obj().Pkg() == nil || !strings.HasPrefix(nt.Obj().Pkg().Path(), modCmd) {
					bad = fmt.Sprintf("the copy destination comes from %s (%s), not from the created file", o.Kind, t)
					continue
				}
				w, err := c.Func(nt.Obj().Pkg().Path(), nt.Obj().Name(), "Write")
				if err != nil {
					bad = "the copy destination is a repository type without a resolvable Write"
					continue
				}
				for _, ret := range returnsOf(w) {
					for _, oo := range origins(ret.Results[0], originOpts{binops: true}) {
						if oo.Kind == "const" {
							continue
						}
						if oo.Kind == "call" && oo.Fn != nil && (oo.Fn.Name() == "Write" || oo.Fn.Name() == "WriteAt" || oo.Fn.Name() == "WriteString") {
							continue
						}
						bad = fmt.Sprintf("%s.Write can report bytes as written (return at %s) that no underlying Write produced: content is skipped, and a file ending in such bytes comes out short", nt.Obj().Name(), c.Pos(ret.Pos()))
					}
				}
			}
		}
	}
	r.Check(bad == "", key, c.Pos(cps[0].Pos()), "content copied into the created file / stdout", bad)
}

func rootFunc(f *ssa.Function) *ssa.Function {
	for f.Parent() != nil {
		f = f.Parent()
	}
	return f
}

// ssaDeclKey: the baseline-table key of a declared function.
func ssaDeclKey(f *ssa.Function) string {
	o, ok := f.Object().(*types.Func)
	if !ok || o.Pkg() == nil {
		return ""
	}
	_, rn := recvTypeName(o)
	return pinnedDeclKey(o.Pkg().Path() + "\t" + rn + "\t" + o.Name())
}

func ruleR18k(c *Ctx, r *Report) {
	byHash := func(v ssa.Value) bool {
		ok := false
		for _, o := range origins(v, originOpts{through: func(call *ssa.Call, f *types.Func) []ssa.Value {
			if funcIs(f, pkgCid, "Cid", "Hash") {
				return nil
			}
			return callArgs(call.Common())
		}}) {
			if o.Kind == "call" && funcIs(o.Fn, pkgCid, "Cid", "Hash") {
				ok = true
			} else if o.Kind == "call" && o.Fn != nil && (o.Fn.Name() == "KeyString" || o.Fn.Name() == "Bytes" || o.Fn.Name() == "String") {
				return false
			} else if o.Kind == "param" {
				// a raw key string used as is
				if bt, isB := o.Val.Type().Underlying().(*types.Basic); isB && bt.Kind() == types.String {
					return false
				}
			}
		}
		return ok
	}
	n, bad := 0, ""
	for _, fn := range c.RepoFuncs() {
		if fn.Pkg == nil || fn.Pkg.Pkg.Path() != pkgCmdCar {
			continue
		}
		root := rootFuncOf(fn)
		_, rn := "", ""
		if o, ok := root.Object().(*types.Func); ok {
			_, rn = recvTypeName(o)
		}
		if rn != "stdinReadStorage" && root.Name() != "NewStdinReadStorage" {
			continue
		}
		eachInstr(fn, func(in ssa.Instruction) {
			switch x := in.(type) {
			case *ssa.MapUpdate:
				n++
				if !byHash(x.Key) {
					bad = fmt.Sprintf("a block is filed at %s under a key that is not its multihash", c.Pos(x.Pos()))
				}
			case *ssa.Lookup:
				if _, isMap := x.X.Type().Underlying().(*types.Map); isMap {
					n++
					if !byHash(x.Index) {
						bad = fmt.Sprintf("a block is looked up at %s by a key that is not the multihash of the requested CID", c.Pos(x.Pos()))
					}
				}
			}
		})
	}
	if n == 0 {
		r.Undec("stdin-store-key@cmd/car", "-", "block map of the stdin storage not found")
		return
	}
	r.Check(bad == "", "stdin-store-key@cmd/car", "-", fmt.Sprintf("%d map accesses, all keyed by multihash", n), bad)
}

func ruleR18l(c *Ctx, r *Report) {
	fn, err := c.Func(pkgCmdCar, "", "writeFiles")
	if err != nil {
		r.InfraFail("%v", err)
		return
	}
	key := "paths-as-given@" + fnKey(fn)
	n, bad := 0, ""
	for _, g := range withAnon(fn) {
		eachInstr(g, func(in ssa.Instruction) {
			ci, ok := in.(ssa.CallInstruction)
			if !ok {
				return
			}
			f := calleeFunc(ci.Common())
			if f == nil || f.Name() != "BuildUnixFSRecursive" {
				return
			}
			n++
			for _, o := range origins(ci.Common().Args[0], originOpts{}) {
				if o.Kind != "param" && o.Kind != "freevar" {
					bad = fmt.Sprintf("the path handed to BuildUnixFSRecursive at %s is computed (%s), not the argument as given", c.Pos(in.Pos()), o.Kind)
				}
			}
		})
	}
	if n == 0 {
		r.Undec(key, c.Pos(fn.Pos()), "BuildUnixFSRecursive call not found")
		return
	}
	r.Check(bad == "", key, c.Pos(fn.Pos()), "paths handed to the builder as given", bad)
}

func ruleR18n(c *Ctx, r *Report) {
	fn, err := c.Func(pkgCmdCar, "", "NewStdinReadStorage")
	if err != nil {
		r.InfraFail("%v", err)
		return
	}
	key := "stdin-reader-not-seekable@" + fnKey(fn)
	calls := callsToFunc(fn, modV2, "", "NewBlockReader")
	if len(calls) == 0 {
		r.Undec(key, c.Pos(fn.Pos()), "NewBlockReader call not found")
		return
	}
	bad := ""
	for _, ci := range calls {
		arg := ci.Common().Args[0]
		mi, ok := arg.(*ssa.MakeInterface)
		if !ok {
			bad = fmt.Sprintf("NewBlockReader at %s is given the input as it came (an interface value of unknown dynamic type): when that is stdin, it is an *os.File and the block reader seeks on a pipe", c.Pos(ci.Pos()))
			continue
		}
		ms := c.Prog.MethodSets.MethodSet(mi.X.Type())
		for i := 0; i < ms.Len(); i++ {
			if ms.At(i).Obj().Name() == "Seek" {
				bad = fmt.Sprintf("NewBlockReader at %s is given a %s, which has a Seek method", c.Pos(ci.Pos()), mi.X.Type())
			}
		}
	}
	r.Check(bad == "", key, c.Pos(calls[0].Pos()), "the block reader gets a reader without Seek", bad)
}

func ruleR18o(c *Ctx, r *Report) {
	fn, err := c.Func(pkgCmdLib, "", "extractDir")
	if err != nil {
		r.InfraFail("%v", err)
		return
	}
	key := "no-silent-skip@" + fnKey(fn)
	bad := ""
	for _, ret := range returnsOf(fn) {
		if len(ret.Results) != 2 {
			continue
		}
		if k, ok := constInt(retResult(ret, 0)); ok && k == 0 && resultIsNilConst(ret, 1) {
			bad = fmt.Sprintf("extractDir returns `0, nil` at %s: a directory (and everything below it) is left out while the command reports success", c.Pos(ret.Pos()))
		}
	}
	r.Check(bad == "", key, c.Pos(fn.Pos()), "extractDir has no silent-skip return", bad)
	// its closures: `0, nil` only where the loader said NotFound (the one tolerated skip: a partial DAG)
	n := 0
	for _, g := range withAnon(fn) {
		if g == fn {
			continue
		}
		nf := condEdges(g, func(base ssa.Value) (bool, bool) {
			if cl, _ := callOf(base); cl != nil && cl.Common().IsInvoke() && cl.Common().Method.Name() == "NotFound" {
				return true, true
			}
			return false, false
		})
		rs := reach(g, nil, edgeSet(nf))
		for _, ret := range returnsOf(g) {
			if len(ret.Results) != 2 {
				continue
			}
			if k, ok := constInt(retResult(ret, 0)); ok && k == 0 && resultIsNilConst(ret, 1) {
				n++
				key2 := fmt.Sprintf("skip-only-when-not-found@%s#%d", fnKey(g), n)
				r.Check(!rs[ret.Block()], key2, c.Pos(ret.Pos()), "this `0, nil` is behind a NotFound() answer of the loader",
					"an entry can be skipped (`0, nil`) for a reason other than its data being absent from the archive: what was packed is not extracted, and the command reports success")
			}
		}
	}
	r.Count("tolerated skips in the extraction closures", n)
}
