package main

import (
	"go/token"
	"go/types"
	"strings"

	"golang.org/x/tools/go/ssa"
)

// canon resolves value-preserving wrappers and single-store local cells, so that
// two uses of "the same variable" compare equal as SSA values.
func canon(v ssa.Value) ssa.Value {
	for i := 0; i < 16; i++ {
		v = strip(v)
		// a parameter of a function the pinned tree does not have (a closure written as a named
		// function: what it captured is now passed in) is what every caller passes for it
		if p, isParam := v.(*ssa.Parameter); isParam && resolveNewFuncParams {
			if a := newFuncParamArg(p); a != nil {
				v = a
				continue
			}
			return v
		}
		if phi, isPhi := v.(*ssa.Phi); isPhi {
			// result merge of an inlined helper: `return zero, err` inputs are not observable on the success path
			l := phiLive(phi)
			if len(l) == 1 {
				v = l[0]
				continue
			}
			// every live input is the same value (several `return x, nil` of an inlined helper)
			if len(l) > 1 && len(l) < len(phi.Edges) || len(l) > 1 && isResultMerge(phi) {
				same := true
				for _, e := range l[1:] {
					if e != l[0] {
						same = false
					}
				}
				if same {
					v = l[0]
					continue
				}
			}
			return v
		}
		u, ok := v.(*ssa.UnOp)
		if !ok || u.Op != token.MUL {
			return v
		}
		// a field of a local struct that is set once (a struct literal filled in, then read back;
		// or a by-value copy of such a struct, as the inlining of a helper taking it leaves behind)
		if fa, isFA := u.X.(*ssa.FieldAddr); isFA && canonFields {
			if w := localStructField(fa.X, fa.Field, 0, u); w != nil {
				v = w
				continue
			}
			return v
		}
		al, ok := u.X.(*ssa.Alloc)
		if !ok {
			return v
		}
		var st []*ssa.Store
		for _, x := range storesTo(al) {
			// `*cell = *cell`: the copy go/ssa emits for a named result before rundefers
			if l, ok := x.Val.(*ssa.UnOp); ok && l.Op == token.MUL && l.X == ssa.Value(al) {
				continue
			}
			st = append(st, x)
		}
		if len(st) != 1 {
			return v
		}
		v = st[0].Val
	}
	return v
}

// resolveNewFuncParams switches the resolution of parameters of unspliced new functions in canon on.
// Off: it confused the recognisers that look at a helper's own parameter (the length-sum helpers of
// LdWrite); kept for the rules that ask for it explicitly.
var resolveNewFuncParams = false

var newFuncCallSites = map[*ssa.Function][]ssa.CallInstruction{}

// newFuncParamArg: p is a parameter of an unspliced new function all of whose static call sites
// (at least one, all in one calling function) pass the same value for it: that value.
func newFuncParamArg(p *ssa.Parameter) ssa.Value {
	f := p.Parent()
	if f == nil || f.Parent() != nil || f.Pkg == nil || !isRepoPkg(f.Pkg.Pkg.Path()) {
		return nil
	}
	if k := ssaDeclKey(f); k == "" || baselineFuncs[k] {
		return nil
	}
	sites, ok := newFuncCallSites[f]
	if !ok {
		for _, m := range f.Pkg.Members {
			var fns []*ssa.Function
			switch x := m.(type) {
			case *ssa.Function:
				fns = append(fns, x)
			case *ssa.Type:
				for _, t := range []types.Type{x.Type(), types.NewPointer(x.Type())} {
					ms := f.Prog.MethodSets.MethodSet(t)
					for i := 0; i < ms.Len(); i++ {
						if mf := f.Prog.MethodValue(ms.At(i)); mf != nil && mf.Pkg == f.Pkg {
							fns = append(fns, mf)
						}
					}
				}
			}
			for _, g0 := range fns {
				for _, g := range withAnonSeen(g0, map[*ssa.Function]bool{f: true}) {
					for _, b := range g.Blocks {
						for _, in := range b.Instrs {
							if ci, ok := in.(ssa.CallInstruction); ok && ci.Common().StaticCallee() == f {
								sites = append(sites, ci)
							}
						}
					}
				}
			}
		}
		// the same site may be seen through several members
		uniq := map[ssa.CallInstruction]bool{}
		var out []ssa.CallInstruction
		for _, s := range sites {
			if !uniq[s] {
				uniq[s] = true
				out = append(out, s)
			}
		}
		sites = out
		newFuncCallSites[f] = sites
	}
	if len(sites) == 0 {
		return nil
	}
	idx := -1
	for i, q := range f.Params {
		if q == p {
			idx = i
		}
	}
	if idx < 0 {
		return nil
	}
	var val ssa.Value
	for _, s := range sites {
		if s.Parent() == f {
			continue // the function calling itself hands its own parameter on
		}
		args := s.Common().Args
		if idx >= len(args) {
			return nil
		}
		a := args[idx]
		if val != nil && a != val {
			// two sites: the same only if both are the same parameter or value of one caller
			if pa, ok1 := a.(*ssa.Parameter); !ok1 || pa != val {
				return nil
			}
		}
		val = a
	}
	if val == ssa.Value(p) {
		return nil
	}
	return val
}

func sameValue(a, b ssa.Value) bool { return canon(a) == canon(b) }

// canonFields switches on, for the rules that ask for it (canonF), the resolution of once-set fields
// of local structs in canon. It is off by default: most rules identify a quantity BY its field.
var canonFields bool

// canonF is canon that also reads through once-set fields of local, non-escaping structs.
func canonF(v ssa.Value) ssa.Value {
	old := canonFields
	canonFields = true
	defer func() { canonFields = old }()
	return canon(v)
}

// localStructField: the one value stored into field k of the local struct base points to, when base
// is an Alloc that does not escape (only field accesses, whole-struct loads and stores).
func localStructField(base ssa.Value, k int, depth int, load ssa.Instruction) ssa.Value {
	al, ok := base.(*ssa.Alloc)
	if !ok || depth > 4 || al.Referrers() == nil {
		return nil
	}
	if _, isStruct := al.Type().Underlying().(*types.Pointer).Elem().Underlying().(*types.Struct); !isStruct {
		return nil
	}
	var fieldStores, whole []*ssa.Store
	for _, ref := range *al.Referrers() {
		switch x := ref.(type) {
		case *ssa.FieldAddr:
			if x.Field != k || x.Referrers() == nil {
				continue
			}
			for _, r2 := range *x.Referrers() {
				switch y := r2.(type) {
				case *ssa.Store:
					if y.Addr != ssa.Value(x) {
						return nil // the field's address is stored somewhere
					}
					fieldStores = append(fieldStores, y)
				case *ssa.UnOp, *ssa.DebugRef:
				default:
					return nil
				}
			}
		case *ssa.Store:
			if x.Addr != ssa.Value(al) {
				return nil
			}
			whole = append(whole, x)
		case *ssa.UnOp, *ssa.DebugRef:
		default:
			return nil // the struct's address escapes
		}
	}
	// `x := *p; x.f = v`: the field store overrides the initial whole copy when it comes after it
	if len(fieldStores) == 1 && len(whole) == 1 && whole[0].Block() == fieldStores[0].Block() && instrIndex(whole[0]) < instrIndex(fieldStores[0]) && setOnceBefore(al, fieldStores[0], load) {
		return fieldStores[0].Val
	}
	switch {
	case len(fieldStores) == 1 && len(whole) == 0:
		if setOnceBefore(al, fieldStores[0], load) {
			return fieldStores[0].Val
		}
	case len(fieldStores) == 0 && len(whole) == 1:
		if l, ok := whole[0].Val.(*ssa.UnOp); ok && l.Op == token.MUL && setOnceBefore(al, whole[0], load) {
			return localStructField(l.X, k, depth+1, whole[0])
		}
	}
	return nil
}

// isResultMerge: phi merges the results of an inlined helper (its comment is a result temporary's name).
func isResultMerge(phi *ssa.Phi) bool {
	return strings.HasPrefix(phi.Comment, "_i") && strings.Contains(phi.Comment, "_r")
}

// isGlobalLoad reports whether v is a load of package-level variable pkg.name.
func isGlobalLoad(v ssa.Value, pkg, name string) bool {
	u, ok := strip(v).(*ssa.UnOp)
	if !ok || u.Op != token.MUL {
		return false
	}
	g, ok := u.X.(*ssa.Global)
	if !ok {
		return false
	}
	return g.Pkg != nil && g.Pkg.Pkg.Path() == pkg && g.Name() == name
}

// ---- forward flow of one value to returns, with edge cuts ----------------------------------

// flowClosure computes every value that may carry `src` forward inside fn:
// through phis, interface conversions, and store/load of local cells.
func flowClosure(src ssa.Value) map[ssa.Value]bool {
	t := map[ssa.Value]bool{src: true}
	work := []ssa.Value{src}
	for len(work) > 0 {
		v := work[len(work)-1]
		work = work[:len(work)-1]
		refs := v.Referrers()
		if refs == nil {
			continue
		}
		for _, r := range *refs {
			switch x := r.(type) {
			case *ssa.Phi:
				if !t[x] {
					t[x] = true
					work = append(work, x)
				}
			case *ssa.MakeInterface:
				if !t[x] {
					t[x] = true
					work = append(work, x)
				}
			case *ssa.ChangeInterface:
				if !t[x] {
					t[x] = true
					work = append(work, x)
				}
			case *ssa.ChangeType:
				if !t[x] {
					t[x] = true
					work = append(work, x)
				}
			case *ssa.Store:
				if x.Val == v {
					// loads of the same cell
					if lrefs := x.Addr.Referrers(); lrefs != nil {
						for _, lr := range *lrefs {
							if u, ok := lr.(*ssa.UnOp); ok && u.Op == token.MUL && !t[u] {
								t[u] = true
								work = append(work, u)
							}
						}
					}
					for _, u := range elementLoads(x.Addr) {
						if !t[u] {
							t[u] = true
							work = append(work, u)
						}
					}
				}
			}
		}
	}
	return t
}

// elementLoads: v was stored into an element of a local array; return the loads of
// any element of that array (directly or through a slice of it).
func elementLoads(addr ssa.Value) []ssa.Value {
	ia, ok := addr.(*ssa.IndexAddr)
	if !ok {
		return nil
	}
	arr, ok := ia.X.(*ssa.Alloc)
	if !ok {
		return nil
	}
	var out []ssa.Value
	var visit func(v ssa.Value)
	visit = func(v ssa.Value) {
		refs := v.Referrers()
		if refs == nil {
			return
		}
		for _, r := range *refs {
			switch x := r.(type) {
			case *ssa.Slice:
				visit(x)
			case *ssa.IndexAddr:
				if x.Referrers() != nil {
					for _, rr := range *x.Referrers() {
						if u, ok := rr.(*ssa.UnOp); ok && u.Op == token.MUL {
							out = append(out, u)
						}
					}
				}
			}
		}
	}
	visit(arr)
	return out
}

// escape describes one way a value leaves the function through a return.
type escape struct {
	Ret *ssa.Return
	Via string
}

// unsanitisedReturns: starting at the block of `at`, with the edges in cut
// removed, which returns can still carry a value of the closure of src? A phi
// passes the value on only along incoming edges that remain traversable.
func unsanitisedReturns(fn *ssa.Function, at ssa.Instruction, src ssa.Value, cut EdgeSet) []escape {
	out0 := unwrappedEscapes(fn, src)
	// where src itself was found to be nil it is not the value the caller worries about (a nil
	// error that reaches a return through a merged result variable is the success outcome)
	cut2 := EdgeSet{}
	for e := range cut {
		cut2[e] = true
	}
	for _, e := range condEdges(fn, errNilCond(func(v ssa.Value) bool { return v == src || strip(v) == src }, true)) {
		cut2[e] = true
	}
	return append(out0, unsanitisedReturns1(fn, at, src, cut2)...)
}

// unwrappedEscapes: `errors.Unwrap(err)` (or errors.Cause-like helpers of the same name)
// yields a new error value about which the tests made on err say nothing: the cause of a
// wrapped error that is not io.EOF may well be io.EOF. Each such value has to be
// sanitised on its own.
func unwrappedEscapes(fn *ssa.Function, src ssa.Value) []escape {
	var out []escape
	closure := flowClosure(src)
	eachInstr(fn, func(in ssa.Instruction) {
		ci, ok := in.(*ssa.Call)
		if !ok || len(ci.Call.Args) != 1 {
			return
		}
		f := calleeFunc(ci.Common())
		if f == nil || f.Pkg() == nil || f.Pkg().Path() != "errors" || f.Name() != "Unwrap" {
			return
		}
		if !closure[ci.Call.Args[0]] && !closure[strip(ci.Call.Args[0])] {
			return
		}
		vals := flowClosure(ci)
		out = append(out, unsanitisedReturns1(fn, ci, ci, edgeSet(eofNotEqualEdges(fn, vals)))...)
	})
	return out
}

func unsanitisedReturns1(fn *ssa.Function, at ssa.Instruction, src ssa.Value, cut EdgeSet) []escape {
	reachable := reach(fn, at.Block(), cut)
	traversable := func(pred, succ *ssa.BasicBlock) bool {
		if !reachable[pred] {
			return false
		}
		for i, s := range pred.Succs {
			if s == succ && !cut[Edge{From: pred, Succ: i}] {
				return true
			}
		}
		return false
	}
	t := map[ssa.Value]bool{src: true}
	work := []ssa.Value{src}
	var out []escape
	seenRet := map[*ssa.Return]bool{}
	push := func(v ssa.Value) {
		if !t[v] {
			t[v] = true
			work = append(work, v)
		}
	}
	for len(work) > 0 {
		v := work[len(work)-1]
		work = work[:len(work)-1]
		refs := v.Referrers()
		if refs == nil {
			continue
		}
		for _, r := range *refs {
			switch x := r.(type) {
			case *ssa.Phi:
				for i, e := range x.Edges {
					if e == v && traversable(x.Block().Preds[i], x.Block()) {
						push(x)
					}
				}
			case *ssa.MakeInterface:
				if reachable[x.Block()] {
					push(x)
				}
			case *ssa.ChangeInterface:
				if reachable[x.Block()] {
					push(x)
				}
			case *ssa.ChangeType:
				if reachable[x.Block()] {
					push(x)
				}
			case *ssa.Store:
				if x.Val == v && reachable[x.Block()] {
					if lrefs := x.Addr.Referrers(); lrefs != nil {
						for _, lr := range *lrefs {
							if u, ok := lr.(*ssa.UnOp); ok && u.Op == token.MUL {
								push(u)
							}
						}
					}
					for _, u := range elementLoads(x.Addr) {
						push(u)
					}
				}
			case *ssa.Return:
				if reachable[x.Block()] && !seenRet[x] {
					seenRet[x] = true
					out = append(out, escape{Ret: x})
				}
			}
		}
	}
	return out
}

// eofCompareEdges returns the CFG edges taken when a value of the set `vals` is
// known NOT to be io.EOF: the false outcome of `v == io.EOF`, the true outcome of
// `v != io.EOF`, the false outcome of errors.Is(v, io.EOF).
func eofNotEqualEdges(fn *ssa.Function, vals map[ssa.Value]bool) []Edge {
	return condEdges(fn, func(base ssa.Value) (bool, bool) {
		switch b := base.(type) {
		case *ssa.BinOp:
			if b.Op != token.EQL && b.Op != token.NEQ {
				return false, false
			}
			var other ssa.Value
			switch {
			case isGlobalLoad(b.Y, "io", "EOF"):
				other = b.X
			case isGlobalLoad(b.X, "io", "EOF"):
				other = b.Y
			default:
				return false, false
			}
			if !vals[other] && !vals[strip(other)] {
				return false, false
			}
			// want outcome "not equal": EQL false / NEQ true
			return true, b.Op == token.NEQ
		case *ssa.Call:
			f := calleeFunc(b.Common())
			if funcIs(f, "errors", "", "Is") && len(b.Call.Args) == 2 {
				if (vals[b.Call.Args[0]] || vals[strip(b.Call.Args[0])]) && isGlobalLoad(b.Call.Args[1], "io", "EOF") {
					return true, false
				}
			}
		}
		return false, false
	})
}

// ---- simple backward origin walk ---------------------------------------------------------------

// Origin is a leaf of the backward slice of a value.
type Origin struct {
	Kind  string // call, param, field, const, global, alloc, freevar, make, other
	Val   ssa.Value
	Fn    *types.Func // call: callee
	Res   int         // call: result index
	Field *types.Var  // field
	Base  ssa.Value   // field: base value (struct pointer / value)
}

type originOpts struct {
	// through decides whether to continue the walk through a call's arguments
	// instead of stopping at the call; it returns the argument values to follow
	// (nil = stop: the call is a leaf).
	through func(call *ssa.Call, f *types.Func) []ssa.Value
	binops  bool // follow both operands of arithmetic BinOps
}

// constructorArg: fa addresses a field of the object an unexported constructor of the repository
// has just returned; the constructor stores one of its own parameters into that field (once, into
// the object it allocates and returns) and the calling function does not assign the field: the
// argument the caller passed for that parameter. `sc, err := newReadableWritable(rw, roots, opts...)`
// followed by `sc.roots` is `roots`.
func constructorArg(fa *ssa.FieldAddr) ssa.Value {
	base := canon(fa.X)
	var call *ssa.Call
	switch b := base.(type) {
	case *ssa.Call:
		call = b
	case *ssa.Extract:
		if b.Index == 0 {
			call, _ = b.Tuple.(*ssa.Call)
		}
	}
	if call == nil {
		return nil
	}
	g := call.Call.StaticCallee()
	if g == nil || len(g.Blocks) == 0 || g.Object() == nil || g.Object().Exported() || g.Pkg == nil || !isRepoPkg(g.Pkg.Pkg.Path()) {
		return nil
	}
	// the caller leaves the field alone
	if fn := fa.Parent(); fn != nil {
		assigned := false
		eachInstr(fn, func(in ssa.Instruction) {
			if st, ok := in.(*ssa.Store); ok {
				if fa2, ok := st.Addr.(*ssa.FieldAddr); ok && fa2.Field == fa.Field && canon(fa2.X) == base {
					assigned = true
				}
			}
		})
		if assigned {
			return nil
		}
	}
	if k, ok := ctorFieldParam(g, fa.Field, 0); ok && k < len(call.Call.Args) {
		return call.Call.Args[k]
	}
	return nil
}

// ctorFieldParam: the index of the parameter of constructor g that ends up, unchanged, in field
// number `field` of the one object g returns — stored by g itself into the object it allocates, or
// by the inner constructor g delegates to (newReadableWritable -> newWritable).
func ctorFieldParam(g *ssa.Function, field int, depth int) (int, bool) {
	if depth > 3 || g == nil || len(g.Blocks) == 0 {
		return 0, false
	}
	var obj ssa.Value
	for _, ret := range returnsOf(g) {
		if len(ret.Results) == 0 {
			return 0, false
		}
		for _, leaf := range phiLeaves(retResult(ret, 0)) {
			if isNilConst(leaf) {
				continue
			}
			l := canon(leaf)
			if obj != nil && obj != l {
				return 0, false
			}
			obj = l
		}
	}
	if obj == nil {
		return 0, false
	}
	var param *ssa.Parameter
	n := 0
	eachInstr(g, func(in ssa.Instruction) {
		st, ok := in.(*ssa.Store)
		if !ok {
			return
		}
		fa2, ok := st.Addr.(*ssa.FieldAddr)
		if !ok || fa2.Field != field || canon(fa2.X) != obj && fa2.X != obj {
			return
		}
		n++
		param, _ = canon(st.Val).(*ssa.Parameter)
	})
	paramIndex := func(p *ssa.Parameter) (int, bool) {
		for i, q := range g.Params {
			if q == p {
				return i, true
			}
		}
		return 0, false
	}
	switch o := obj.(type) {
	case *ssa.Alloc:
		if n == 1 && param != nil {
			return paramIndex(param)
		}
	case *ssa.Call, *ssa.Extract:
		var call *ssa.Call
		if c, ok := o.(*ssa.Call); ok {
			call = c
		} else if e := o.(*ssa.Extract); e.Index == 0 {
			call, _ = e.Tuple.(*ssa.Call)
		}
		if call == nil || n != 0 {
			return 0, false
		}
		h := call.Call.StaticCallee()
		if h == nil || h.Object() == nil || h.Object().Exported() || h.Pkg != g.Pkg {
			return 0, false
		}
		if k, ok := ctorFieldParam(h, field, depth+1); ok && k < len(call.Call.Args) {
			if p, ok := canon(call.Call.Args[k]).(*ssa.Parameter); ok {
				return paramIndex(p)
			}
		}
	}
	return 0, false
}

func origins(v ssa.Value, o originOpts) []Origin {
	var out []Origin
	seen := map[ssa.Value]bool{}
	var walk func(v ssa.Value)
	walk = func(v ssa.Value) {
		if v == nil || seen[v] {
			return
		}
		seen[v] = true
		switch x := v.(type) {
		case *ssa.ChangeType:
			walk(x.X)
		case *ssa.MakeInterface:
			walk(x.X)
		case *ssa.ChangeInterface:
			walk(x.X)
		case *ssa.Convert:
			walk(x.X)
		case *ssa.TypeAssert:
			walk(x.X)
		case *ssa.Slice:
			walk(x.X)
		case *ssa.Phi:
			for _, e := range phiLive(x) {
				walk(e)
			}
		case *ssa.Extract:
			if c, ok := x.Tuple.(*ssa.Call); ok {
				f := calleeFunc(c.Common())
				if o.through != nil {
					if args := o.through(c, f); args != nil {
						for _, a := range args {
							walk(a)
						}
						return
					}
				}
				out = append(out, Origin{Kind: "call", Val: x, Fn: devirt(c.Common(), f), Res: x.Index})
				return
			}
			if ta, ok := x.Tuple.(*ssa.TypeAssert); ok {
				walk(ta.X)
				return
			}
			out = append(out, Origin{Kind: "other", Val: x})
		case *ssa.Call:
			f := calleeFunc(x.Common())
			if o.through != nil {
				if args := o.through(x, f); args != nil {
					for _, a := range args {
						walk(a)
					}
					return
				}
			}
			out = append(out, Origin{Kind: "call", Val: x, Fn: devirt(x.Common(), f), Res: 0})
		case *ssa.UnOp:
			if x.Op == token.MUL {
				switch a := x.X.(type) {
				case *ssa.Alloc:
					sts := storesTo(a)
					if len(sts) == 0 {
						out = append(out, Origin{Kind: "alloc", Val: a})
						return
					}
					for _, st := range sts {
						walk(st.Val)
					}
				case *ssa.FieldAddr:
					if src := setOnceSource(x); src != nil {
						walk(src)
						return
					}
					if arg := constructorArg(a); arg != nil {
						walk(arg)
						return
					}
					out = append(out, Origin{Kind: "field", Val: x, Field: fieldVar(a.X.Type(), a.Field), Base: a.X})
				case *ssa.Global:
					out = append(out, Origin{Kind: "global", Val: a})
				case *ssa.FreeVar:
					// captured cell: stores in parent and here
					sts := storesTo(a)
					if b := freeVarBinding(a); b != nil {
						sts = append(sts, storesTo(b)...)
					}
					if len(sts) == 0 {
						out = append(out, Origin{Kind: "freevar", Val: a})
						return
					}
					for _, st := range sts {
						walk(st.Val)
					}
				case *ssa.IndexAddr:
					walk(a.X)
				default:
					out = append(out, Origin{Kind: "other", Val: x})
				}
				return
			}
			if o.binops {
				walk(x.X)
				return
			}
			out = append(out, Origin{Kind: "other", Val: x})
		case *ssa.Field:
			if src := setOnceSource(x); src != nil {
				walk(src)
				return
			}
			out = append(out, Origin{Kind: "field", Val: x, Field: fieldVar(x.X.Type(), x.Field), Base: x.X})
		case *ssa.BinOp:
			if o.binops {
				walk(x.X)
				walk(x.Y)
				return
			}
			out = append(out, Origin{Kind: "other", Val: x})
		case *ssa.Const:
			out = append(out, Origin{Kind: "const", Val: x})
		case *ssa.Parameter:
			out = append(out, Origin{Kind: "param", Val: x})
		case *ssa.FreeVar:
			if b := freeVarBinding(x); b != nil {
				walk(b)
				return
			}
			out = append(out, Origin{Kind: "freevar", Val: x})
		case *ssa.Global:
			out = append(out, Origin{Kind: "global", Val: x})
		case *ssa.Alloc:
			out = append(out, Origin{Kind: "alloc", Val: x})
		case *ssa.MakeSlice, *ssa.MakeMap, *ssa.MakeChan:
			out = append(out, Origin{Kind: "make", Val: x})
		default:
			out = append(out, Origin{Kind: "other", Val: v})
		}
	}
	walk(v)
	return out
}

// freeVarBinding returns the value bound to free variable fv at the (single)
// MakeClosure of its function in the parent, or nil.
func freeVarBinding(fv *ssa.FreeVar) ssa.Value {
	fn := fv.Parent()
	par := fn.Parent()
	if par == nil {
		return nil
	}
	idx := -1
	for i, f := range fn.FreeVars {
		if f == fv {
			idx = i
		}
	}
	if idx < 0 {
		return nil
	}
	var found ssa.Value
	n := 0
	for _, p := range withAnon(par) {
		eachInstr(p, func(in ssa.Instruction) {
			if mc, ok := in.(*ssa.MakeClosure); ok && mc.Fn == ssa.Value(fn) && idx < len(mc.Bindings) {
				found = mc.Bindings[idx]
				n++
			}
		})
	}
	if n == 1 {
		return found
	}
	return nil
}

// setOnceBefore: the store happens before the load on every path, and never again after it
// (it dominates the load and cannot be reached from it without the struct being allocated anew).
func setOnceBefore(al *ssa.Alloc, st *ssa.Store, load ssa.Instruction) bool {
	sb, lb := st.Block(), load.Block()
	if sb == nil || lb == nil || sb.Parent() != lb.Parent() {
		return false
	}
	if sb == lb {
		if instrIndex(st) > instrIndex(load) {
			return false
		}
	} else if !sb.Dominates(lb) {
		return false
	}
	// from the load onwards the store is not executed again
	seen := map[*ssa.BasicBlock]bool{}
	work := append([]*ssa.BasicBlock{}, lb.Succs...)
	for len(work) > 0 {
		b := work[len(work)-1]
		work = work[:len(work)-1]
		if seen[b] {
			continue
		}
		seen[b] = true
		// a new iteration allocates a new struct: the store that follows the allocation fills that one
		if b == al.Block() && (b != sb || instrIndex(al) < instrIndex(st)) {
			continue
		}
		if b == sb {
			return false
		}
		work = append(work, b.Succs...)
	}
	return true
}

// devirt: a call through an interface the pinned tree does not have (a parameter narrowed to the
// methods a function really uses) on a value whose concrete type is in sight — the argument of the
// inlined helper — is a call of that type's method.
func devirt(cc *ssa.CallCommon, f *types.Func) *types.Func {
	if !cc.IsInvoke() {
		return f
	}
	nt, ok := cc.Value.Type().(*types.Named)
	if !ok || nt.Obj().Pkg() == nil || !isRepoPkg(nt.Obj().Pkg().Path()) || baselineTypes[nt.Obj().Pkg().Path()+"\t"+nt.Obj().Name()] {
		return f
	}
	mi, ok := canon(cc.Value).(*ssa.MakeInterface)
	if !ok {
		if m2, ok2 := cc.Value.(*ssa.MakeInterface); ok2 {
			mi = m2
		} else {
			return f
		}
	}
	sel := types.NewMethodSet(mi.X.Type()).Lookup(cc.Method.Pkg(), cc.Method.Name())
	if sel == nil {
		return f
	}
	if m, ok := sel.Obj().(*types.Func); ok {
		return m
	}
	return f
}
