package main

import (
	"go/token"
	"go/types"

	"golang.org/x/tools/go/ssa"
)

// A tiny concrete interpreter for loop-free boolean code: it evaluates a condition of a function
// under an assignment of two boolean unknowns P and I (for `car filter`: "the tested CID is in the
// set" and "the invert flag"), following calls into repository functions, parameters back to the
// caller's arguments, and fields of local structs back to what was stored in them. It runs no
// program code: it walks go/ssa values. Anything it does not understand makes the evaluation fail
// (the caller then does not treat the condition as the predicate).

type bframe struct {
	fn     *ssa.Function
	args   []ssa.Value
	parent *bframe
	pred   map[*ssa.BasicBlock]*ssa.BasicBlock
}

type boolSem struct {
	isP   func(lk *ssa.Lookup, fr *bframe, s *boolSem) bool
	isI   func(v ssa.Value) bool // asked only about values of the top-level function
	steps int
}

func (s *boolSem) resolve(v ssa.Value, fr *bframe, d int) (ssa.Value, *bframe) {
	if v == nil || d > 24 {
		return v, fr
	}
	switch x := v.(type) {
	case *ssa.Parameter:
		if fr != nil && fr.fn == x.Parent() {
			for i, p := range fr.fn.Params {
				if p == x && i < len(fr.args) {
					return s.resolve(fr.args[i], fr.parent, d+1)
				}
			}
		}
		return v, fr
	case *ssa.ChangeType:
		return s.resolve(x.X, fr, d+1)
	case *ssa.UnOp:
		if x.Op != token.MUL {
			return v, fr
		}
		if fa, ok := x.X.(*ssa.FieldAddr); ok {
			if fv, ffr, ok := s.fieldValue(fa.X, fa.Field, fr, d+1); ok {
				return s.resolve(fv, ffr, d+1)
			}
			return v, fr
		}
		// a local cell with one store
		if al, ok := x.X.(*ssa.Alloc); ok {
			if _, isStruct := al.Type().Underlying().(*types.Pointer).Elem().Underlying().(*types.Struct); !isStruct {
				if sts := storesTo(al); len(sts) == 1 {
					return s.resolve(sts[0].Val, fr, d+1)
				}
			}
		}
	case *ssa.Field:
		if fv, ffr, ok := s.fieldOfStructValue(x.X, x.Field, fr, d+1); ok {
			return s.resolve(fv, ffr, d+1)
		}
	}
	return v, fr
}

// fieldValue: what field k of the struct that base points to holds.
func (s *boolSem) fieldValue(base ssa.Value, k int, fr *bframe, d int) (ssa.Value, *bframe, bool) {
	if d > 24 {
		return nil, nil, false
	}
	b, bfr := s.resolve(base, fr, d+1)
	al, ok := b.(*ssa.Alloc)
	if !ok {
		return nil, nil, false
	}
	var fieldStores []*ssa.Store
	var whole []*ssa.Store
	if refs := al.Referrers(); refs != nil {
		for _, ref := range *refs {
			switch y := ref.(type) {
			case *ssa.FieldAddr:
				if y.Field == k {
					fieldStores = append(fieldStores, storesTo(y)...)
				}
			case *ssa.Store:
				if y.Addr == ssa.Value(al) {
					whole = append(whole, y)
				}
			}
		}
	}
	switch {
	case len(fieldStores) == 1 && len(whole) == 0:
		return fieldStores[0].Val, bfr, true
	case len(fieldStores) == 0 && len(whole) == 1:
		return s.fieldOfStructValue(whole[0].Val, k, bfr, d+1)
	}
	return nil, nil, false
}

// fieldOfStructValue: field k of a struct value (a load of a local, a by-value parameter).
func (s *boolSem) fieldOfStructValue(sv ssa.Value, k int, fr *bframe, d int) (ssa.Value, *bframe, bool) {
	if d > 24 {
		return nil, nil, false
	}
	v, vfr := s.resolve(sv, fr, d+1)
	if u, ok := v.(*ssa.UnOp); ok && u.Op == token.MUL {
		return s.fieldValue(u.X, k, vfr, d+1)
	}
	return nil, nil, false
}

func (s *boolSem) eval(v ssa.Value, p, i bool, fr *bframe, d int) (bool, bool) {
	s.steps++
	if d > 24 || s.steps > 4000 {
		return false, false
	}
	rv, rfr := s.resolve(v, fr, 0)
	if rfr == nil && s.isI(rv) {
		return i, true
	}
	switch x := rv.(type) {
	case *ssa.Const:
		return constBool(x)
	case *ssa.UnOp:
		if x.Op == token.NOT {
			b, ok := s.eval(x.X, p, i, rfr, d+1)
			return !b, ok
		}
	case *ssa.BinOp:
		if x.Op != token.EQL && x.Op != token.NEQ {
			return false, false
		}
		if bt, ok := x.X.Type().Underlying().(*types.Basic); !ok || bt.Info()&types.IsBoolean == 0 {
			return false, false
		}
		a, ok1 := s.eval(x.X, p, i, rfr, d+1)
		b, ok2 := s.eval(x.Y, p, i, rfr, d+1)
		if !ok1 || !ok2 {
			return false, false
		}
		return (a == b) == (x.Op == token.EQL), true
	case *ssa.Extract:
		if lk, ok := x.Tuple.(*ssa.Lookup); ok && lk.CommaOk && x.Index == 1 && s.isP(lk, rfr, s) {
			return p, true
		}
	case *ssa.Call:
		f, _ := x.Call.Value.(*ssa.Function)
		if f == nil || f.Blocks == nil || f.Signature.Results().Len() != 1 || f.Pkg == nil || !isRepoPkg(f.Pkg.Pkg.Path()) {
			return false, false
		}
		return s.run(f, &bframe{fn: f, args: x.Call.Args, parent: rfr, pred: map[*ssa.BasicBlock]*ssa.BasicBlock{}}, p, i, d+1)
	case *ssa.Phi:
		blk := x.Block()
		var pred *ssa.BasicBlock
		if rfr != nil && rfr.fn == x.Parent() {
			pred = rfr.pred[blk]
		}
		if pred == nil {
			pred = s.predOnPath(blk, p, i, rfr, d+1)
		}
		if pred == nil {
			return false, false
		}
		for k, pp := range blk.Preds {
			if pp == pred {
				return s.eval(x.Edges[k], p, i, rfr, d+1)
			}
		}
	}
	return false, false
}

// step follows the terminator of b under the assignment; nil when it is not an If/Jump that can be decided.
func (s *boolSem) step(b *ssa.BasicBlock, p, i bool, fr *bframe, d int) *ssa.BasicBlock {
	if len(b.Instrs) == 0 {
		return nil
	}
	switch t := b.Instrs[len(b.Instrs)-1].(type) {
	case *ssa.Jump:
		return b.Succs[0]
	case *ssa.If:
		c, ok := s.eval(t.Cond, p, i, fr, d+1)
		if !ok {
			return nil
		}
		if c {
			return b.Succs[0]
		}
		return b.Succs[1]
	}
	return nil
}

// predOnPath: from the immediate dominator of merge block m, which predecessor is m entered from?
func (s *boolSem) predOnPath(m *ssa.BasicBlock, p, i bool, fr *bframe, d int) *ssa.BasicBlock {
	b := m.Idom()
	if b == nil {
		return nil
	}
	for n := 0; n < 32; n++ {
		nx := s.step(b, p, i, fr, d+1)
		if nx == nil {
			return nil
		}
		if nx == m {
			return b
		}
		b = nx
	}
	return nil
}

// run interprets a loop-free function to its return.
func (s *boolSem) run(f *ssa.Function, fr *bframe, p, i bool, d int) (bool, bool) {
	b := f.Blocks[0]
	for n := 0; n < 64; n++ {
		if len(b.Instrs) == 0 {
			return false, false
		}
		if ret, ok := b.Instrs[len(b.Instrs)-1].(*ssa.Return); ok {
			return s.eval(ret.Results[0], p, i, fr, d+1)
		}
		nx := s.step(b, p, i, fr, d+1)
		if nx == nil {
			return false, false
		}
		fr.pred[nx] = b
		b = nx
	}
	return false, false
}

// table evaluates v under the four assignments; index = 2*P + I.
func (s *boolSem) table(v ssa.Value) ([4]bool, bool) {
	var t [4]bool
	for k := 0; k < 4; k++ {
		s.steps = 0
		b, ok := s.eval(v, k&2 != 0, k&1 != 0, nil, 0)
		if !ok {
			return t, false
		}
		t[k] = b
	}
	return t, true
}
