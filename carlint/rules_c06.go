package main

import (
	"fmt"
	"go/ast"
	"go/token"
	"go/types"
	"sort"
	"strings"

	"golang.org/x/tools/go/ssa"
)

func init() {
	register(PropertyDef{
		ID: "C06",
		Explanation: "Decided statically, the ordering and validation discipline crash-safety rests on: (R06a) in both put paths the index insertion is behind the " +
			"success outcome of the section write; (R06b) in store.Finalize the index is written only behind the success outcome of the header write (the header, at the " +
			"constant pragma offset, records where the payload ends before any byte goes out behind it: fix D17); (R06c) in store.Resume every section is indexed only behind a check " +
			"that its last byte is inside the file (accepted idioms: ReadAt probe at section-end-1 with its error tested, a full read of the body, or a " +
			"comparison with a size obtained from Stat/Seek(0,SeekEnd)), every scanned section is indexed, and the writer is re-positioned at the value the " +
			"recorded offsets come from; (R06d) validation precedes mutation in Resume (shared with C12); (R06e) Header.ReadFrom stores no field of the receiver " +
			"before all range checks passed (Resume relies on a rejected header leaving a zero DataOffset). NOT decided: behaviour for each torn byte offset " +
			"(enumeration of crash images), atomicity of single WriteAt calls.",
		Assumptions: []string{"Seek beyond the end of a file is silent (true for every reader in this repository)", "ReadAt(p, off) fails when off is at or beyond the end"},
		Rules: []RuleDef{
			{ID: "R06a", Floor: 2, Doc: "write-then-index: InsertNoReplace unreachable without the err == nil outcome of LdWrite", Run: ruleR06a},
			{ID: "R06b", Floor: 1, Doc: "store.Finalize puts the header (the record of where the payload ends) on disk, at PragmaSize, before any byte goes out behind the payload: the index write is reachable only through the success of the header write", Run: ruleR06b},
			{ID: "R06c", Floor: 2, Doc: "rescan completeness: probe of the last byte (or equivalent) dominates indexing; all scanned sections indexed; writer positioned from the section offsets", Run: ruleR06c},
			{ID: "R06d", Floor: 3, Doc: "validate-before-mutate in Resume", Run: ruleR12a},
			{ID: "R06e", Floor: 1, Doc: "Header.ReadFrom: field stores only after the three range checks", Run: ruleR09e},
			{ID: "R06i", Floor: 2, Doc: "every section written is indexed: from the success outcome of the section write, neither the next section write nor a success return is reachable without passing InsertNoReplace (= R12g)", Run: ruleR12g},
			{ID: "R06k", Floor: 2, Doc: "who may resize the file: Truncate is called only by Resume (dropping a stale index) and ExtractV1File (its own destination); writers never extend the file ahead of the bytes they write — a pre-extended, zero-filled tail makes a torn section look complete to the rescan's last-byte probe", Run: ruleR06k},
			{ID: "R06l", Floor: 1, Doc: "the rescan ends only where the payload ends: the code after the rescan loop is reached only through `err == io.EOF` of the length read or the zero-length-as-EOF option; any other way out leaves acknowledged sections unindexed and lets the next put overwrite them", Run: ruleR06l},
			{ID: "R06m", Floor: 1, Doc: "in CARv2 mode Resume blanks the whole header before it rescans, on every path: the rescan is not reachable without the all-zero header write (stale DataSize/IndexOffset bytes left in the slot complete a later torn header)", Run: ruleR06m},
			{ID: "R06n", Floor: 4, Doc: "once a finalizer has run the store takes no more puts, also when the finalize failed: a section appended after a partly written header or index lies where Resume truncates or rescans (= R04c)", Run: ruleR04c},
			{ID: "R06o", Floor: 1, Doc: "Resume cuts a finalized file back to the end of its payload before it blanks the header: the Truncate call is not reachable from the all-zero header write (the other order leaves, after a crash between the two, a blank header followed by payload and old index, which the next rescan reads as sections)", Run: ruleR06o},
			{ID: "R06p", Floor: 1, Doc: "`car filter --append` treats a destination it cannot open as an error: from the failed OpenReader no success return and no truncation is reachable, and FilterCar does not re-enter itself (an output left by an interrupted session fails to open; starting over destroys it)", Run: ruleR06p},
			{ID: "R06q", Floor: 2, Doc: "the header a session finalizes is the constructor's NewHeader(0) plus the paddings the caller asked for, nothing adopted from the file (= R05b)", Run: ruleR05b},
			{ID: "R06r", Floor: 2, Doc: "in CARv2 mode a finalize reports success only as the result of store.Finalize (= R05l)", Run: ruleR05l},
			{ID: "R06s", Floor: 1, Doc: "the library removes, renames or truncates no file by name (os.Remove, os.RemoveAll, os.Rename, os.Truncate): a file that cannot be resumed is refused and left as it is", Run: ruleR06s},
			{ID: "R06t", Floor: 1, Doc: "every block of an acknowledged batch is in the file: a skipped block does not end PutMany (= R04u)", Run: ruleR04u},
			{ID: "R06u", Floor: 1, Doc: "the payload size Finalize records is read under the lock: an acknowledged put is never behind DataSize (= R11x)", Run: ruleR11x},
			{ID: "R06w", Floor: 2, Doc: "a reopened session resumes in the mode it was written in: every argument of store.Resume plays at the call site the role it plays inside (= R12e)", Run: ruleR12e},
			{ID: "R06h", Floor: 2, Doc: "who may write the v2 header slot of a read-write session's file: store.Finalize writes the final header (after the index, R06b); everywhere else in the writing packages only the all-zero header may be written (a non-final, non-zero header on disk makes a later torn Finalize header look complete to Resume)", Run: ruleR06h},
			{ID: "R06g", Floor: 1, Doc: "the file is truncated by the header on file only when that header is complete: IndexOffset (the last field Finalize writes) >= DataOffset + DataSize", Run: ruleR06g},
			{ID: "R06f", Floor: 1, Doc: "every section already in the file is re-indexed on resume (= R12c): acknowledged blocks stay retrievable", Run: ruleR12c},
		},
	})
	register(PropertyDef{
		ID: "C12",
		Explanation: "Decided statically: (R12a) every mutation of the file in store.Resume (Truncate, the header reset write, the writer re-positioning) is behind the " +
			"true outcome of header.Matches(roots) and unreachable from the padding-mismatch outcome; both callers reach Resume only behind the success of " +
			"ResumableVersion and perform no write before it on the resume path; OpenReadWrite opens without O_TRUNC; the header reset targets the constant " +
			"pragma offset; (R12b) ResumableVersion succeeds exactly for (version 1, v1 mode) and (version 2, v2 mode); (R12c) the rescan indexes every section it " +
			"scans (no path of a loop iteration that continues bypasses the insertion), so the rebuilt index equals the one of an uninterrupted session; " +
			"(R12d) CarHeader.Matches decides root equality on whole CIDs. NOT decided: byte identity of interrupted vs uninterrupted sessions over all interleavings.",
		Assumptions: []string{"cid.Cid.Equals compares the whole CID"},
		Rules: []RuleDef{
			{ID: "R12a", Floor: 3 + 2 + 1, Doc: "validation before mutation in Resume and its callers; no O_TRUNC", Run: ruleR12a},
			{ID: "R12b", Floor: 1, Doc: "ResumableVersion accepts exactly (1,v1) and (2,v2)", Run: ruleR12b},
			{ID: "R12c", Floor: 1, Doc: "every scanned section is indexed during rescan", Run: ruleR12c},
			{ID: "R12d", Floor: 1, Doc: "Matches compares whole CIDs", Run: ruleR12d},
			{ID: "R12e", Floor: 2, Doc: "both callers of Resume pass WriteAsCarV1 / MaxAllowedHeaderSize / ZeroLengthSectionAsEOF / DataOffset to the parameters that play those roles", Run: ruleR12e},
			{ID: "R12g", Floor: 2, Doc: "every section written is indexed: from the success outcome of the section write, neither the next section write nor a success return is reachable without passing InsertNoReplace (Resume re-indexes every section, so an uninterrupted session must too)", Run: ruleR12g},
			{ID: "R12f", Floor: 2, Doc: "rescan bound and writer re-positioning (= R06c): the writer resumes at the end of the last indexed section, also when there is none yet", Run: ruleR06c},
			{ID: "R12h", Floor: 1, Doc: "Finalize writes header then index, the shape Resume can recover from at every cut (= R06b)", Run: ruleR06b},
			{ID: "R12j", Floor: 2, Doc: "a resumed session's Finalize always rewrites index and header in CARv2 mode (= R05l)", Run: ruleR05l},
			{ID: "R12k", Floor: 1 + 2 + 2, Doc: "the header a resumed session finalizes with is built from the options only (padding applied once) (= R05b)", Run: ruleR05b},
			{ID: "R12l", Floor: 2, Doc: "the payload header a new session writes lists the caller's roots as given (no filtering, no rebuilding): Resume compares the header on file with the roots the caller passes again, so a writer that edits the list makes its own file unresumable", Run: ruleR12l},
			{ID: "R12m", Floor: 2, Doc: "only Resume resizes a session's file: a Discard or Close that trims the file changes what the next Resume finds (= R06k)", Run: ruleR06k},
			{ID: "R12n", Floor: 6, Doc: "the index a resumed session finalizes is byte-identical to the one an uninterrupted session writes: buckets are written in ascending width order, not map order (= R11b)", Run: ruleR11b},
			{ID: "R12o", Floor: 1, Doc: "Resume judges sections by their framing only: no hashing of block contents is reachable from it (directly or through functions the pinned tree does not have) — Put never verified what it stored, so a verifying resume refuses the writer's own files", Run: ruleR12o},
			{ID: "R12p", Floor: 1, Doc: "OpenReadableWritable never starts a file over: it does not call init, and every success return is behind store.Resume having accepted the file (version, roots and padding are checked for every non-fresh file, however short)", Run: ruleR12p},
			{ID: "R12q", Floor: 7, Doc: "Resume starts its rescan where the header on file ends: HeaderSize is the size of the encoding (= R01c)", Run: ruleR01c},
			{ID: "R12r", Floor: 1, Doc: "a session has no in-memory state that a resumed session cannot rebuild from the file: no new written field on the stores (= R08s)", Run: ruleR08s},
			{ID: "R12s", Floor: 1, Doc: "two headers match only when they list the same number of roots: every non-false answer of CarHeader.Matches is behind len(h.Roots) == len(other.Roots)", Run: ruleR12s},
			{ID: "R12t", Floor: 1, Doc: "a file that is not a resumable archive is refused untouched: no errors.Is(err, io.EOF) decides how to open it (= R02r)", Run: ruleR02r},
			{ID: "R12u", Floor: 1, Doc: "the version of a file being resumed is read from the file the store was opened on, not through a window sized by an offset of the other format", Run: ruleR12u},
			{ID: "R12v", Floor: 2, Doc: "a new file holds no CARv2 header before Finalize: the header slot is written where the pinned tree writes it (= R06h)", Run: ruleR06h},
			{ID: "R12w", Floor: 1, Doc: "different roots are different also when a root is listed twice: CarHeader.Matches keeps state per root (marks, counts or sorts) instead of testing containment one way", Run: ruleR12w},
			{ID: "R12x", Floor: 1, Doc: "Resume leaves the data writer where the next section goes on every path that may report success, also when the file holds no section yet", Run: ruleR12x},
		},
	})
	register(PropertyDef{
		ID: "C16",
		Explanation: "Decided statically: (R16a) on the write path (put paths, initialisers, finalizers, framing writers, index marshalling, header writers) no error " +
			"result is dropped, and from the non-nil outcome of every error-returning call each reachable return carries a non-nil error; (R16b) the index is updated " +
			"only after the section write succeeded; (R16d) the position-tracking writers advance by exactly the byte count the underlying writer reported; " +
			"(R16c) after a failed section write the writer position is restored or the store is poisoned — this clause is VIOLATED on the pinned tree and " +
			"recorded as known finding D10. NOT decided: behaviour under every fault sequence.",
		Assumptions: []string{"io.Writer / io.WriterAt report the number of bytes actually written"},
		Rules: []RuleDef{
			{ID: "R16a", Floor: 25, Doc: "error discipline on the write path: no dropped error; non-nil outcome reaches only error-carrying returns", Run: ruleR16a},
			{ID: "R16b", Floor: 2, Doc: "index only after success (= R06a)", Run: ruleR06a},
			{ID: "R16c", Floor: 2, Doc: "rollback or poison after a failed section write", Run: ruleR16c},
			{ID: "R16e", Floor: 8, Doc: "framing writer: every part written by its own checked Write, in order (= R01b)", Run: ruleR01b},
			{ID: "R16g", Floor: 2, Doc: "a deferred function assigns the enclosing function's named error result only where that result is still nil (or when wrapping it): the primary error — a failed Finalize, a failed write — is never replaced by the outcome of a cleanup", Run: ruleR16g},
			{ID: "R16h", Floor: 10, Doc: "no NEW dropped error: a call whose error result is discarded (expression statement, or assigned to _) must be one of the sites of the pinned tree (table droppedErrorBaseline, keyed by enclosing function and callee); deferred calls and fmt printing are not counted", Run: ruleR16h},
			{ID: "R16j", Floor: 2, Doc: "writer adapters keep the io.Writer contract: a Write/WriteAt method of the repository returns a nil error only together with the full count — the wrapped call's own (n, err) pair, or len(p); an adapter that reports success for a partial write makes Put index a section that is not on disk", Run: ruleR16j},
			{ID: "R16l", Floor: 1, Doc: "an error kept in the named result is not overwritten: once a call's error was assigned to the function's named error result, a later assignment to that result happens only where it is still nil (or wraps it) — otherwise the first failure (a failed Finalize) is replaced by the outcome of a later step (a successful Close)", Run: ruleR16l},
			{ID: "R16f", Floor: 1, Doc: "the deferred writer remembers its CAR writer only when constructing it (header write included) succeeded", Run: ruleR16f},
			{ID: "R16d", Floor: 2, Doc: "position bookkeeping adds exactly the reported byte count", Run: ruleR16d},
			{ID: "R16i", Floor: 2, Doc: "a finalize that did not write index and header does not report success (= R05l)", Run: ruleR05l},
			{ID: "R16k", Floor: 4, Doc: "the deferred writer builds its CAR writer over the caller's stream or a freshly opened, truncated file (= R05g)", Run: ruleR20b},
			{ID: "R16m", Floor: 1, Doc: "the deferred writer reports a put as stored only when the underlying writer did (= R20f)", Run: ruleR20f},
			{ID: "R16n", Floor: 1, Doc: "no reader/writer adapter type beside the audited ones in internal/io: a concrete type of that package that the pinned tree does not have declares no Write/WriteAt/Read/ReadAt/ReadByte/Seek", Run: ruleR16n},
			{ID: "R16o", Floor: 2, Doc: "a failed store.Finalize is what the finalizers return: from its non-nil outcome every return carries that error (as it is or wrapped), not the outcome of a clean-up write", Run: ruleR16o},
			{ID: "R16p", Floor: 2, Doc: "a failed put resizes nothing: only Resume truncates a session's file (= R06k)", Run: ruleR06k},
			{ID: "R16q", Floor: 1, Doc: "Get answers from the archive: no read method starts to keep blocks of its own (= R08o)", Run: ruleR08o},
			{ID: "R16r", Floor: 2, Doc: "a torn section left by a failed write is refused on reopen: the rescan probes the last byte of every section through the payload reader (= R06c)", Run: ruleR06c},
		},
	})
}

var putPaths = []methodSpec{{pkgBS, "ReadWrite", "PutMany", true}, {pkgStorage, "StorageCar", "Put", true}}

func ruleR06a(c *Ctx, r *Report) {
	for _, m := range putPaths {
		fn, err := c.Func(m.pkg, m.recv, m.name)
		if err != nil {
			r.InfraFail("%v", err)
			continue
		}
		key := "write-then-index@" + fnKey(fn)
		lw := callsToFunc(fn, pkgV1Util, "", "LdWrite")
		ins := callsToFunc(fn, pkgIndex, "InsertionIndex", "InsertNoReplace")
		if len(lw) != 1 || len(ins) == 0 {
			r.Undec(key, c.Pos(fn.Pos()), fmt.Sprintf("expected one LdWrite and >=1 InsertNoReplace, found %d/%d", len(lw), len(ins)))
			continue
		}
		ok := condEdges(fn, errNilCond(errOfCall(lw[0]), true))
		bad := ""
		if len(ok) == 0 {
			bad = "the error of LdWrite is not tested"
		} else {
			reachable := reach(fn, nil, edgeSet(ok))
			for _, i := range ins {
				if reachable[i.Block()] {
					bad = fmt.Sprintf("InsertNoReplace at %s is reachable without the section write having succeeded: a failed or not-yet-made write leaves an index entry (a crash or error then exposes a block that is not on disk)", c.Pos(i.Pos()))
				}
			}
		}
		// the recorded offset is the writer position taken before the write, from the same writer
		if bad == "" {
			off := canon(ins[0].Common().Args[2])
			pc, _ := callOf(off)
			if pc == nil || calleeFunc(pc.Common()) == nil || calleeFunc(pc.Common()).Name() != "Position" {
				bad = "the offset handed to InsertNoReplace is not a Position() of the data writer"
			} else if !precedes(pc, lw[0]) {
				bad = "the position recorded for the section is read after the section was written"
			} else {
				w1 := phiLeavesSet(callArgs(pc.Common())[0])
				w2 := phiLeavesSet(lw[0].Common().Args[0])
				if !sameSet(w1, w2) {
					bad = "the position is taken from a different writer than the one LdWrite writes to"
				}
			}
		}
		r.Check(bad == "", key, c.Pos(lw[0].Pos()), "insert behind err == nil of LdWrite; offset = Position() of the same writer before the write", bad)
	}
}

func phiLeavesSet(v ssa.Value) map[ssa.Value]bool {
	m := map[ssa.Value]bool{}
	for _, l := range phiLeaves(v) {
		m[l] = true
	}
	return m
}

func sameSet(a, b map[ssa.Value]bool) bool {
	if len(a) != len(b) {
		return false
	}
	for k := range a {
		if !b[k] {
			// compare loads of the same field as equal
			found := false
			fk, bk := fieldOfLoad(k)
			for k2 := range b {
				f2, b2 := fieldOfLoad(k2)
				if fk != nil && fk == f2 && sameValue(bk, b2) {
					found = true
				}
			}
			if !found {
				return false
			}
		}
	}
	return true
}

// headerWriteCalls: calls of carv2.Header.WriteTo in fn.
func headerWriteCalls(fn *ssa.Function) []ssa.CallInstruction {
	return callsToFunc(fn, modV2, "Header", "WriteTo")
}

// offsetWriterAt: if v is NewOffsetWriter(w, off) returns (w, off).
func offsetWriterOf(v ssa.Value) (ssa.Value, ssa.Value, bool) {
	cl, _ := callOf(canon(v))
	if cl == nil || !funcIs(calleeFunc(cl.Common()), pkgIntIO, "", "NewOffsetWriter") {
		return nil, nil, false
	}
	return cl.Call.Args[0], cl.Call.Args[1], true
}

func ruleR06b(c *Ctx, r *Report) {
	fn, err := c.Func(pkgStore, "", "Finalize")
	if err != nil {
		r.InfraFail("%v", err)
		return
	}
	key := "header-before-index@" + fnKey(fn)
	iw := callsToFunc(fn, pkgIndex, "", "WriteTo")
	hw := headerWriteCalls(fn)
	if len(iw) != 1 || len(hw) == 0 {
		r.Undec(key, c.Pos(fn.Pos()), fmt.Sprintf("expected one index.WriteTo and a Header.WriteTo, found %d/%d", len(iw), len(hw)))
		return
	}
	bad := ""
	for _, h := range hw {
		_, off, isOW := offsetWriterOf(h.Common().Args[1])
		if k, isK := constInt(off); !isOW || !isK || k != 11 {
			bad = "a header is not written through an offset writer positioned at PragmaSize (11)"
		}
	}
	// D17: before any byte goes out behind the payload, the payload's end is on disk. The index
	// write is reachable only through the success of a header write.
	if bad == "" {
		good := false
		for _, h := range hw {
			okh := condEdges(fn, errNilCond(errOfCall(h), true))
			if len(okh) > 0 && !reach(fn, nil, edgeSet(okh))[iw[0].Block()] {
				good = true
			}
		}
		if !good {
			bad = "the index is written behind the payload before the header (which records where the payload ends) is on disk: a crash inside the index write leaves `zero header | payload | index prefix`, which Resume rescans to the end of the file, so index bytes that parse as a section (codec varint 0x0401 = length 1025) become a block that was never put"
		}
	}
	if bad == "" && len(condEdges(fn, errNilCond(errOfCall(iw[0]), true))) == 0 {
		// returned as is?
		returned := false
		if ev := errOfCallValue(iw[0]); ev != nil {
			for v := range flowClosure(ev) {
				if v.Referrers() == nil {
					continue
				}
				for _, ref := range *v.Referrers() {
					if _, ok := ref.(*ssa.Return); ok {
						returned = true
					}
				}
			}
		}
		if !returned {
			bad = "error of index.WriteTo neither tested nor returned"
		}
	}
	// the index always goes out: no success return bypasses index.WriteTo, and the header that is
	// written keeps the IndexOffset it was built with (a finalized file without index, or with
	// IndexOffset 0, is refused by Resume: finalize-then-reopen would stop working)
	if bad == "" {
		cut := EdgeSet{}
		for _, b := range fn.Blocks {
			for i, sc := range b.Succs {
				if sc == iw[0].Block() {
					cut[Edge{From: b, Succ: i}] = true
				}
			}
		}
		if iw[0].Block() != fn.Blocks[0] {
			rs := reach(fn, nil, cut)
			for _, ret := range returnsOf(fn) {
				if rs[ret.Block()] && ret.Block() != iw[0].Block() && resultIsNilConst(ret, 0) {
					bad = fmt.Sprintf("Finalize can report success at %s without having written the index the header announces", c.Pos(ret.Pos()))
				}
			}
		}
		eachInstr(fn, func(in ssa.Instruction) {
			st, ok := in.(*ssa.Store)
			if !ok {
				return
			}
			if fa, ok := st.Addr.(*ssa.FieldAddr); ok && fieldAddrIs(fa, modV2, "Header", "IndexOffset") {
				bad = fmt.Sprintf("Finalize assigns Header.IndexOffset at %s: the offset is fixed when the header is built (end of payload + index padding); a finalized header announcing no index is refused by Resume", c.Pos(st.Pos()))
			}
		})
	}
	r.Check(bad == "", key, c.Pos(hw[0].Pos()), "Header.WriteTo (at offset PragmaSize) succeeds before index.WriteTo runs; both errors tested", bad)
}

func ruleR06c(c *Ctx, r *Report) {
	fn, err := c.Func(pkgStore, "", "Resume")
	if err != nil {
		r.InfraFail("%v", err)
		return
	}
	pos := c.Pos(fn.Pos())
	ins := callsToFunc(fn, pkgIndex, "InsertionIndex", "InsertNoReplace")
	lens := callsToFunc(fn, pkgVarint, "", "ReadUvarint")
	cids := callsToFunc(fn, pkgCid, "", "CidFromReader")
	if len(ins) != 1 || len(lens) != 1 || len(cids) != 1 {
		r.Undec("rescan-bound@"+fnKey(fn), pos, "rescan loop shape not recognised (want one ReadUvarint, CidFromReader, InsertNoReplace)")
		return
	}
	reader := canon(lens[0].Common().Args[0])
	length := extractOf(lens[0].Value(), 0)
	cidLen := extractOf(cids[0].Value(), 0)
	secOff := canon(ins[0].Common().Args[2])
	env := &AffEnv{name: func(v ssa.Value) string {
		switch canon(v) {
		case length:
			return "L"
		case cidLen:
			return "n"
		case secOff:
			return "S"
		}
		return ""
	}}
	// the skipping seek: Seek(L - n, SeekCurrent) on the reader
	var endPos ssa.Value
	eachInstr(fn, func(in ssa.Instruction) {
		ci, ok := in.(*ssa.Call)
		if !ok || !isSeekCall(ci) || !sameValue(seekReceiver(ci), reader) {
			return
		}
		o, w := seekArgs(ci)
		if k, ok := constInt(w); !ok || k != 1 {
			return
		}
		if env.of(o).equal(affAtom("L").add(affAtom("n"), -1)) {
			endPos = extractOf(ci, 0)
		}
	})
	envE := &AffEnv{name: func(v ssa.Value) string {
		if endPos != nil && canon(v) == endPos {
			return "END"
		}
		return env.name(v)
	}}
	// accepted idiom (ii): ReadAt probe at END-1 or S+U(L)+L-1 with err tested
	var gate []Edge
	how := ""
	eachInstr(fn, func(in ssa.Instruction) {
		ci, ok := in.(*ssa.Call)
		if !ok {
			return
		}
		f := calleeFunc(ci.Common())
		if f == nil {
			return
		}
		args := callArgs(ci.Common())
		switch {
		case f.Name() == "ReadAt" && len(args) == 3 && sameValue(args[0], reader):
			a := envE.of(args[2])
			ok1 := a.equal(affAtom("END").add(Aff{K: 1}, -1))
			ok2 := a.equal(affAtom("S").add(affAtom("U(0 +1*L)"), 1).add(affAtom("L"), 1).add(Aff{K: 1}, -1))
			if ok1 || ok2 {
				gate = append(gate, condEdges(fn, errNilCond(errOfCall(ci), true))...)
				// the `if end > 0` guard around the probe: nothing to probe at offset 0
				gate = append(gate, cmpEdges(fn, func(v ssa.Value) bool { return endPos != nil && canon(v) == endPos }, func(v ssa.Value) bool { k, ok := constInt(v); return ok && k == 0 }, "le")...)
				how = "ReadAt probe of the section's last byte"
			} else {
				how = "ReadAt probe at " + a.String() + " (not the section's last byte: END-1 or S+U(L)+L-1)"
			}
		case (funcIs(f, "io", "", "CopyN") || funcIs(f, "io", "", "ReadFull")) && len(ci.Call.Args) >= 2:
			// idiom (i): the body is read in full from the reader
			ra, _, _ := bodyReadSpec(f)
			if sameValue(ci.Call.Args[ra], reader) {
				gate = append(gate, condEdges(fn, errNilCond(errOfCall(ci), true))...)
				how = "full read of the section body"
			}
		}
	})
	// idiom (iii): comparison of END with a size from Stat().Size() / Seek(0, SeekEnd)
	if len(gate) == 0 {
		isSize := func(v ssa.Value) bool {
			for _, o := range origins(v, originOpts{}) {
				if o.Kind == "call" && o.Fn != nil && (o.Fn.Name() == "Size" || (o.Fn.Name() == "Seek")) {
					if o.Fn.Name() == "Seek" {
						cl, _ := callOf(o.Val)
						if cl == nil {
							return false
						}
						_, w := seekArgs(cl)
						if k, ok := constInt(w); !ok || k != 2 {
							return false
						}
					}
					return true
				}
			}
			return false
		}
		gate = cmpEdges(fn, func(v ssa.Value) bool { return endPos != nil && canon(v) == endPos }, isSize, "le")
		if len(gate) > 0 {
			how = "comparison of the section end with the file size"
		}
	}
	key := "rescan-bound@" + fnKey(fn)
	switch {
	case endPos == nil && len(gate) == 0:
		r.Viol(key, pos, "the rescan skips section bodies and nothing establishes that the body is inside the file; the end position of the skipping Seek is not even observed")
	case len(gate) == 0:
		r.Viol(key, c.Pos(ins[0].Pos()), "sections are indexed after a Seek over the body with no check that the body is really in the file ("+how+"): a torn last section is accepted, its Put had not returned, and Get on it fails / later puts corrupt the archive")
	default:
		reachable := reach(fn, cids[0].Block(), edgeSet(gate))
		if reachable[ins[0].Block()] {
			r.Viol(key, c.Pos(ins[0].Pos()), "InsertNoReplace is reachable from the section read without passing the completeness check ("+how+")")
		} else {
			r.Hold(key, c.Pos(ins[0].Pos()), "indexing behind: "+how)
		}
	}
	// writer re-positioned from the section offsets
	key2 := "resume-writer-position@" + fnKey(fn)
	var wseek *ssa.Call
	eachInstr(fn, func(in ssa.Instruction) {
		ci, ok := in.(*ssa.Call)
		if ok && funcIs(calleeFunc(ci.Common()), pkgIntIO, "OffsetWriteSeeker", "Seek") {
			wseek = ci
		}
	})
	if wseek == nil {
		r.Viol(key2, pos, "Resume never positions the data writer: new sections would overwrite the existing payload")
	} else {
		o, w := seekArgs(wseek)
		k, isK := constInt(w)
		ok := isK && k == 0 && canon(o) == secOff
		r.Check(ok, key2, c.Pos(wseek.Pos()), "dataWriter.Seek(offset of the next section to record, SeekStart)", "the data writer is positioned from a value other than the section offset the rescan tracks (e.g. the reader's current position, which is past a consumed zero-length marker)")
	}
}

// ruleR12c: no path of a continuing loop iteration bypasses the insertion.
func ruleR12c(c *Ctx, r *Report) {
	fn, err := c.Func(pkgStore, "", "Resume")
	if err != nil {
		r.InfraFail("%v", err)
		return
	}
	key := "rescan-indexes-all@" + fnKey(fn)
	ins := callsToFunc(fn, pkgIndex, "InsertionIndex", "InsertNoReplace")
	lens := callsToFunc(fn, pkgVarint, "", "ReadUvarint")
	cids := callsToFunc(fn, pkgCid, "", "CidFromReader")
	if len(ins) == 0 || len(lens) != 1 || len(cids) != 1 {
		r.Undec(key, c.Pos(fn.Pos()), "rescan loop shape not recognised")
		return
	}
	cut := EdgeSet{}
	for _, i := range ins {
		for s := range i.Block().Succs {
			cut[Edge{From: i.Block(), Succ: s}] = true
		}
	}
	// from the CID read, can we get back to the length read without inserting?
	back := false
	for s := range cids[0].Block().Succs {
		if cut[Edge{From: cids[0].Block(), Succ: s}] {
			continue
		}
		if reachFromEdge(fn, Edge{From: cids[0].Block(), Succ: s}, cut)[lens[0].Block()] {
			back = true
		}
	}
	sameBlockOK := false
	for _, i := range ins {
		if i.Block() == cids[0].Block() {
			sameBlockOK = true
		}
	}
	r.Check(!back || sameBlockOK, key, c.Pos(ins[0].Pos()), "every iteration that continues has inserted its section", "some path of the rescan loop continues with the next section without indexing the current one: the rebuilt index differs from the one the live session held (e.g. identity or duplicate sections dropped)")
}

// ---- C12 --------------------------------------------------------------------------------------------

func ruleR12a(c *Ctx, r *Report) {
	fn, err := c.Func(pkgStore, "", "Resume")
	if err != nil {
		r.InfraFail("%v", err)
		return
	}
	pos := c.Pos(fn.Pos())
	// mutations
	type mut struct {
		in   ssa.Instruction
		what string
	}
	var muts []mut
	eachInstr(fn, func(in ssa.Instruction) {
		ci, ok := in.(*ssa.Call)
		if !ok {
			return
		}
		f := calleeFunc(ci.Common())
		if f == nil {
			return
		}
		switch {
		case f.Name() == "Truncate":
			muts = append(muts, mut{in, "Truncate"})
		case funcIs(f, modV2, "Header", "WriteTo"):
			muts = append(muts, mut{in, "header reset write"})
		case funcIs(f, pkgIntIO, "OffsetWriteSeeker", "Seek"):
			muts = append(muts, mut{in, "data writer re-positioning"})
		case f.Name() == "WriteAt" || (f.Name() == "Write" && f.Pkg() != nil && f.Pkg().Path() != "fmt"):
			muts = append(muts, mut{in, f.Name()})
		}
	})
	if len(muts) < 3 {
		r.Undec("validate-before-mutate@"+fnKey(fn), pos, fmt.Sprintf("expected >=3 mutation sites (Truncate, header reset, writer Seek), found %d", len(muts)))
		return
	}
	matches := condEdges(fn, matchCallCond(pkgV1, "CarHeader", "Matches", true, nil))
	if len(matches) == 0 {
		r.Viol("validate-before-mutate@"+fnKey(fn), pos, "Resume never tests header.Matches(roots)")
		return
	}
	// padding mismatch outcome: headerInFile.DataOffset != dataOffset (param)
	var dataOffParam *ssa.Parameter
	for _, p := range fn.Params {
		if p.Name() == "dataOffset" {
			dataOffParam = p
		}
	}
	if dataOffParam == nil && len(fn.Params) >= 6 {
		dataOffParam = fn.Params[5]
	}
	mismatch := cmpEdges(fn,
		func(v ssa.Value) bool { return loadsField(canon(v), modV2, "Header", "DataOffset") },
		func(v ssa.Value) bool { return canon(v) == ssa.Value(dataOffParam) }, "ne")
	reachable := reach(fn, nil, edgeSet(matches))
	ord := map[string]int{}
	for _, m := range muts {
		ord[m.what]++
		key := fmt.Sprintf("validate-before-mutate@%s#%s#%d", fnKey(fn), m.what, ord[m.what])
		bad := ""
		if reachable[m.in.Block()] {
			bad = fmt.Sprintf("%s at %s is reachable without header.Matches(roots) having returned true: a file with other roots is modified before being rejected", m.what, c.Pos(m.in.Pos()))
		}
		for _, e := range mismatch {
			if reachFromEdge(fn, e, nil)[m.in.Block()] {
				bad = fmt.Sprintf("%s at %s is reachable from the padding-mismatch outcome", m.what, c.Pos(m.in.Pos()))
			}
		}
		if bad == "" && m.what == "Truncate" {
			// the only legitimate truncation removes the index of a finalized file: at DataOffset + DataSize of the header on file
			ci := m.in.(*ssa.Call)
			arg := ci.Call.Args[len(ci.Call.Args)-1]
			sawOff, sawSize := false, false
			for _, o := range origins(arg, originOpts{binops: true}) {
				switch {
				case o.Kind == "field" && o.Field != nil && o.Field.Name() == "DataOffset":
					sawOff = true
				case o.Kind == "field" && o.Field != nil && o.Field.Name() == "DataSize":
					sawSize = true
				default:
					bad = "the file is truncated at a position that is not DataOffset + DataSize of the header found on file (a payload-relative or scan-derived position used as an absolute file offset cuts into acknowledged sections)"
				}
			}
			if bad == "" && (!sawOff || !sawSize) {
				bad = "the truncation point is not DataOffset + DataSize of the header found on file"
			}
		}
		if bad == "" && m.what == "header reset write" {
			ci := m.in.(*ssa.Call)
			_, off, isOW := offsetWriterOf(ci.Common().Args[1])
			if k, isK := constInt(off); !isOW || !isK || k != 11 {
				bad = "the header reset is not written at the constant pragma offset (11): with data padding the real header stays finalized"
			}
		}
		r.Check(bad == "", key, c.Pos(m.in.Pos()), "behind Matches == true, not reachable from padding mismatch", bad)
	}
	if len(mismatch) == 0 {
		r.Viol("padding-check@"+fnKey(fn), pos, "Resume does not compare the file's DataOffset with the configured one")
	} else {
		r.Hold("padding-check@"+fnKey(fn), pos, "DataOffset of the file compared with the configured offset")
	}
	// callers
	for _, cs := range []fnSpec{{pkgBS, "", "OpenReadWriteFile"}, {pkgStorage, "", "OpenReadableWritable"}} {
		cf, err := c.Func(cs.pkg, cs.recv, cs.name)
		if err != nil {
			r.InfraFail("%v", err)
			continue
		}
		key := "resume-caller@" + fnKey(cf)
		rv := callsToFunc(cf, pkgStore, "", "ResumableVersion")
		rs := callsToFunc(cf, pkgStore, "", "Resume")
		if len(rv) != 1 || len(rs) != 1 {
			r.Undec(key, c.Pos(cf.Pos()), "expected one ResumableVersion and one Resume call")
			continue
		}
		ok := condEdges(cf, errNilCond(errOfCall(rv[0]), true))
		bad := ""
		if len(ok) == 0 || reach(cf, nil, edgeSet(ok))[rs[0].Block()] {
			bad = "Resume is reachable without ResumableVersion having succeeded"
		}
		// no write before Resume on the resume path: initialisers must not reach Resume
		for _, initName := range []string{"initWithRoots", "init"} {
			eachInstr(cf, func(in ssa.Instruction) {
				if ci, ok := in.(*ssa.Call); ok {
					if f := calleeFunc(ci.Common()); f != nil && f.Name() == initName && f.Pkg() != nil && f.Pkg().Path() == cs.pkg {
						if instrReaches(in, rs[0]) {
							bad = "the fresh-file initialiser " + initName + " runs on the path that then resumes: it overwrites pragma/header of the existing file"
						}
					}
				}
			})
		}
		// nor anything else that writes: whatever runs before Resume has validated the file must leave it alone
		eachInstr(cf, func(in ssa.Instruction) {
			ci, ok := in.(ssa.CallInstruction)
			if !ok || in == ssa.Instruction(rs[0]) || !instrReaches(in, rs[0]) {
				return
			}
			if w := writesSomething(c, ci, cs.pkg, 0, map[*ssa.Function]bool{}); w != "" && bad == "" {
				bad = fmt.Sprintf("the call at %s runs before Resume has validated the file and writes (%s): a reopen that is then refused has already changed the file", c.Pos(in.Pos()), w)
			}
		})
		r.Check(bad == "", key, c.Pos(rs[0].Pos()), "Resume only behind ResumableVersion success; nothing that writes runs before it", bad)
	}
	// open flags
	of, err := c.Func(pkgBS, "", "OpenReadWrite")
	if err != nil {
		r.InfraFail("%v", err)
		return
	}
	opens := callsToFunc(of, "os", "", "OpenFile")
	if len(opens) != 1 {
		r.Undec("open-flags@"+fnKey(of), c.Pos(of.Pos()), "expected one os.OpenFile")
		return
	}
	fl, isK := constInt(opens[0].Common().Args[1])
	const oTRUNC, oAPPEND, oRDWR, oCREATE = 0x200, 0x400, 0x2, 0x40
	ok := isK && fl&oTRUNC == 0 && fl&oAPPEND == 0 && fl&oRDWR != 0 && fl&oCREATE != 0
	r.Check(ok, "open-flags@"+fnKey(of), c.Pos(opens[0].Pos()), "O_RDWR|O_CREATE without O_TRUNC/O_APPEND", fmt.Sprintf("open flags %#x: must be constant O_RDWR|O_CREATE and must not contain O_TRUNC or O_APPEND (an existing file would be destroyed before validation)", fl))
}

func ruleR12b(c *Ctx, r *Report) {
	fn, err := c.Func(pkgStore, "", "ResumableVersion")
	if err != nil {
		r.InfraFail("%v", err)
		return
	}
	key := "accepted-versions@" + fnKey(fn)
	if len(fn.Params) != 2 {
		r.Undec(key, c.Pos(fn.Pos()), "signature changed")
		return
	}
	v1p := fn.Params[1]
	rv := callsToFunc(fn, modV2, "", "ReadVersion")
	if len(rv) != 1 {
		r.Undec(key, c.Pos(fn.Pos()), "expected one ReadVersion call")
		return
	}
	ver := extractOf(rv[0].Value(), 0)
	isVer := func(v ssa.Value) bool { return canon(v) == ver }
	isK := func(k int64) func(ssa.Value) bool {
		return func(v ssa.Value) bool { x, ok := constInt(v); return ok && x == k }
	}
	eq1 := cmpEdges(fn, isVer, isK(1), "eq")
	eq2 := cmpEdges(fn, isVer, isK(2), "eq")
	var okRets []*ssa.Return
	for _, ret := range returnsOf(fn) {
		if isNilConst(ret.Results[0]) {
			okRets = append(okRets, ret)
		}
	}
	bad := ""
	if len(eq1) == 0 && len(eq2) == 0 && len(okRets) > 0 {
		// table form: `version != expected[writeAsV1]` with an immutable table {true: 1, false: 2}
		isTab := func(v ssa.Value) bool {
			lk, ok := canon(v).(*ssa.Lookup)
			if !ok || canon(lk.Index) != ssa.Value(v1p) {
				return false
			}
			m := immutableMapEntries(c, lk.X)
			return len(m) == 2 && m["true"] == "1" && m["false"] == "2"
		}
		same := cmpEdges(fn, isVer, isTab, "eq")
		if len(same) > 0 {
			errOK := condEdges(fn, errNilCond(errOfCall(rv[0]), true))
			reachOK := func(m map[*ssa.BasicBlock]bool) bool {
				for _, ret := range okRets {
					if m[ret.Block()] {
						return true
					}
				}
				return false
			}
			switch {
			case reachOK(reach(fn, nil, edgeSet(same))):
				bad = "success is reachable although the version is not the one the table gives for the mode"
			case len(errOK) == 0 || reachOK(reach(fn, nil, edgeSet(errOK))):
				bad = "success reachable although ReadVersion failed"
			}
			for _, e := range same {
				if !reachOK(reachFromEdge(fn, e, nil)) {
					bad = "the expected version is rejected"
				}
			}
			r.Check(bad == "", key, c.Pos(fn.Pos()), "success exactly when version == {v1 mode: 1, v2 mode: 2}[mode] (immutable table)", bad)
			return
		}
	}
	if len(eq1) == 0 || len(eq2) == 0 || len(okRets) == 0 {
		bad = "version is not compared with both 1 and 2"
	}
	anyReach := func(m map[*ssa.BasicBlock]bool) bool {
		for _, ret := range okRets {
			if m[ret.Block()] {
				return true
			}
		}
		return false
	}
	if bad == "" {
		// version not in {1,2}: no success
		errOK := condEdges(fn, errNilCond(errOfCall(rv[0]), true))
		if anyReach(reach(fn, nil, edgeSet(eq1, eq2))) {
			bad = "success is reachable for a version other than 1 or 2"
		}
		if len(errOK) == 0 || anyReach(reach(fn, nil, edgeSet(errOK))) {
			bad = "success reachable although ReadVersion failed"
		}
		// version 1 needs writeAsV1 true; version 2 needs false. The mode may be tested after the
		// version (`case version == 1 && writeAsV1`) or before it (`if writeAsV1 { return version == 1 }`):
		// an outcome is possible in a mode when its test can be reached in that mode and success
		// can be reached from it in that mode.
		possible := func(e Edge, cut EdgeSet) bool {
			at := e.From
			if e.Via != nil {
				at = e.Via
			}
			if !reach(fn, nil, cut)[at] {
				return false
			}
			return anyReach(reachFromEdge(fn, e, cut))
		}
		any := func(es []Edge, cut EdgeSet) bool {
			for _, e := range es {
				if possible(e, cut) {
					return true
				}
			}
			return false
		}
		v1mode, v2mode := boolParamEdges(fn, v1p, false), boolParamEdges(fn, v1p, true) // the edges cut in that mode
		if any(eq1, edgeSet(eq2, v2mode)) {
			bad = "a version-1 file is accepted without v1 mode"
		}
		if !any(eq1, edgeSet(eq2, v1mode)) {
			bad = "a version-1 file is rejected even in v1 mode"
		}
		if any(eq2, edgeSet(eq1, v1mode)) {
			bad = "a version-2 file is accepted in v1 mode"
		}
		if !any(eq2, edgeSet(eq1, v2mode)) {
			bad = "a version-2 file is rejected even in v2 mode"
		}
	}
	r.Check(bad == "", key, c.Pos(fn.Pos()), "success exactly for (1, v1 mode) and (2, v2 mode)", bad)
}

func ruleR12d(c *Ctx, r *Report) {
	key := "matches-whole-cid@v2/internal/carv1.CarHeader.Matches"
	nEq := 0
	bad := ""
	for _, nm := range []string{"Matches", "matchUnmatchedRoot", "containsRoot"} {
		fn, err := c.Func(pkgV1, "CarHeader", nm)
		if err != nil {
			if nm == "Matches" {
				r.InfraFail("%v", err)
				return
			}
			continue
		}
		eachInstr(fn, func(in ssa.Instruction) {
			if ci, ok := in.(*ssa.Call); ok {
				f := calleeFunc(ci.Common())
				if funcIs(f, pkgCid, "Cid", "Equals") {
					nEq++
				}
				if funcIs(f, pkgCid, "Cid", "Hash") || funcIs(f, pkgCid, "Cid", "Prefix") || funcIs(f, pkgCid, "Cid", "KeyString") && false {
					bad = "root comparison in " + nm + " looks at " + f.Name() + "() of the CID instead of the whole CID: roots differing only in codec/version would match"
				}
			}
			if b, ok := in.(*ssa.BinOp); ok && b.Op == token.EQL && isNamed(b.X.Type(), pkgCid, "Cid") {
				nEq++
			}
		})
	}
	if bad == "" && nEq == 0 {
		bad = "no whole-CID comparison (Cid.Equals / ==) found in Matches and its helper"
	}
	r.Check(bad == "", key, "-", fmt.Sprintf("%d whole-CID comparison(s), no partial (Hash/Prefix) comparison", nEq), bad)
}

// ---- C09 R09e (also C06 R06e) ----------------------------------------------------------------------------

func ruleR09e(c *Ctx, r *Report) {
	fn, err := c.Func(modV2, "Header", "ReadFrom")
	if err != nil {
		r.InfraFail("%v", err)
		return
	}
	key := "header-range-checks@" + fnKey(fn)
	// stores to the receiver's DataOffset, DataSize, IndexOffset
	// (the receiver's own fields: a decode into a local copy that is validated and then assigned
	// to *h as a whole is the same discipline — then the whole-struct store is what must wait)
	var stores, whole []*ssa.Store
	recv := ssa.Value(nil)
	if len(fn.Params) > 0 {
		recv = fn.Params[0]
	}
	eachInstr(fn, func(in ssa.Instruction) {
		if st, ok := in.(*ssa.Store); ok {
			if fa, ok := st.Addr.(*ssa.FieldAddr); ok && addrRoot(fa) == recv {
				for _, f := range []string{"DataOffset", "DataSize", "IndexOffset"} {
					if fieldAddrIs(fa, modV2, "Header", f) {
						stores = append(stores, st)
					}
				}
			}
			if st.Addr == recv {
				whole = append(whole, st)
			}
		}
	})
	if len(stores) == 0 && len(whole) > 0 {
		stores = whole
	} else if len(stores) != 3 {
		r.Undec(key, c.Pos(fn.Pos()), fmt.Sprintf("expected 3 field stores, found %d", len(stores)))
		return
	}
	isU64At := func(lo int64) func(ssa.Value) bool {
		return func(v ssa.Value) bool {
			cl, _ := callOf(canonF(v))
			if cl == nil {
				return false
			}
			f := calleeFunc(cl.Common())
			if f == nil || f.Name() != "Uint64" {
				return false
			}
			sl, ok := cl.Call.Args[len(cl.Call.Args)-1].(*ssa.Slice)
			if !ok {
				return false
			}
			l := int64(0)
			if sl.Low != nil {
				l, _ = constInt(sl.Low)
			}
			return l == lo
		}
	}
	isK := func(k int64) func(ssa.Value) bool {
		return func(v ssa.Value) bool { x, ok := constInt(v); return ok && x == k }
	}
	g1 := cmpEdges(fn, isU64At(0), isK(51), "ge")
	g2 := cmpEdges(fn, isU64At(8), isK(0), "gt")
	g2b := cmpEdges(fn, isU64At(8), isK(1), "ge")
	g3 := cmpEdges(fn, isU64At(16), isK(0), "ge")
	bad := ""
	for i, g := range [][]Edge{g1, append(g2, g2b...), g3} {
		if len(g) == 0 {
			bad = []string{"DataOffset >= 51", "DataSize > 0", "IndexOffset >= 0"}[i] + " (as int64) is not checked"
			break
		}
		reachable := reach(fn, nil, edgeSet(g))
		for _, st := range stores {
			if reachable[st.Block()] {
				bad = "a header field is stored at " + c.Pos(st.Pos()) + " on a path where " + []string{"DataOffset >= 51", "DataSize > 0", "IndexOffset >= 0"}[i] + " was not established: a rejected header leaves its values in the receiver (Resume then truncates by them)"
			}
		}
	}
	r.Check(bad == "", key, c.Pos(fn.Pos()), "all three fields stored only after the three range checks passed", bad)
}

// ---- C16 ----------------------------------------------------------------------------------------------

var writePathFuncs = []fnSpec{
	{pkgBS, "ReadWrite", "PutMany"}, {pkgBS, "ReadWrite", "Put"}, {pkgBS, "ReadWrite", "initWithRoots"}, {pkgBS, "ReadWrite", "Finalize"},
	{pkgBS, "ReadWrite", "FinalizeReadOnly"}, {pkgBS, "ReadWrite", "finalizeReadOnlyWithoutMutex"},
	{pkgStorage, "StorageCar", "Put"}, {pkgStorage, "StorageCar", "init"}, {pkgStorage, "StorageCar", "Finalize"}, {pkgStorage, "positionTrackingWriter", "Write"},
	{pkgDeferred, "DeferredCarWriter", "Put"}, {pkgDeferred, "DeferredCarWriter", "writer"},
	{pkgStore, "", "Finalize"},
	{pkgV1Util, "", "LdWrite"}, {pkgV1, "", "WriteHeader"},
	{pkgIndex, "", "WriteTo"}, {pkgIndex, "multiWidthIndex", "Marshal"}, {pkgIndex, "singleWidthIndex", "Marshal"},
	{pkgIndex, "MultihashIndexSorted", "Marshal"}, {pkgIndex, "multiWidthCodedIndex", "Marshal"},
	{modV2, "Header", "WriteTo"}, {modV2, "Characteristics", "WriteTo"},
	{pkgIntIO, "OffsetWriteSeeker", "Write"},
}

func returnsError(f *types.Func) (int, bool) {
	if f == nil {
		return 0, false
	}
	sig, ok := f.Type().(*types.Signature)
	if !ok || sig.Results().Len() == 0 {
		return 0, false
	}
	last := sig.Results().At(sig.Results().Len() - 1).Type()
	if n, ok := last.(*types.Named); ok && n.Obj().Name() == "error" && n.Obj().Pkg() == nil {
		return sig.Results().Len() - 1, true
	}
	return 0, false
}

func ruleR16a(c *Ctx, r *Report) {
	n := checkErrDiscipline(c, r, writePathFuncs, false)
	r.Count("error-returning calls on the write path", n)
}

// checkErrDiscipline: in each listed function, no error result is dropped, and
// from the non-nil outcome of every error-returning call each reachable return
// carries a non-nil error.
func checkErrDiscipline(c *Ctx, r *Report, specs []fnSpec, eofIsCleanEnd bool) int {
	n := 0
	for _, sp := range specs {
		fn, err := c.Func(sp.pkg, sp.recv, sp.name)
		if err != nil {
			r.InfraFail("%v", err)
			continue
		}
		ord := map[string]int{}
		eachInstr(fn, func(in ssa.Instruction) {
			ci, ok := in.(ssa.CallInstruction)
			if !ok {
				return
			}
			f := calleeFunc(ci.Common())
			idx, isErr := returnsError(f)
			if !isErr {
				return
			}
			if f.Pkg() != nil && (f.Pkg().Path() == "fmt" || f.Pkg().Path() == "errors") {
				return
			}
			if _, isDefer := in.(*ssa.Defer); isDefer {
				return
			}
			fk := funcKey(f)
			ord[fk]++
			key := fmt.Sprintf("errflow@%s#%s#%d", fnKey(fn), fk, ord[fk])
			n++
			cv := ci.Value()
			if cv == nil {
				r.Viol(key, c.Pos(in.Pos()), "error result of "+fk+" is dropped (go/defer)")
				return
			}
			var errv ssa.Value
			sig := f.Type().(*types.Signature)
			if sig.Results().Len() == 1 {
				errv = cv
			} else {
				errv = extractOf(cv, idx)
			}
			if errv == nil || errv.Referrers() == nil || len(*errv.Referrers()) == 0 {
				r.Viol(key, c.Pos(in.Pos()), "the error returned by "+fk+" is dropped: a failed or short write goes unnoticed and the caller is told the operation succeeded")
				return
			}
			// either returned directly (flows to a return operand) or tested
			closure := flowClosure(errv)
			flowsToRet := false
			for v := range closure {
				if v.Referrers() == nil {
					continue
				}
				for _, ref := range *v.Referrers() {
					if _, ok := ref.(*ssa.Return); ok {
						flowsToRet = true
					}
				}
			}
			nonNil := condEdges(fn, errNilCond(func(v ssa.Value) bool { return closure[v] }, false))
			if len(nonNil) == 0 && !flowsToRet {
				r.Viol(key, c.Pos(in.Pos()), "the error returned by "+fk+" is neither tested nor returned")
				return
			}
			var eofCut EdgeSet
			inLoop := false
			for _, sc := range in.Block().Succs {
				if reach(fn, sc, nil)[in.Block()] {
					inLoop = true
				}
			}
			if eofIsCleanEnd && inLoop {
				// `err == io.EOF` from a read inside the scan loop is the documented clean end of the
				// scan, not a swallowed failure; outside a loop nothing "ends", and EOF is a failure
				eofCut = EdgeSet{}
				for _, e := range condEdges(fn, func(base ssa.Value) (bool, bool) {
					b, ok := base.(*ssa.BinOp)
					if !ok || (b.Op != token.EQL && b.Op != token.NEQ) {
						return false, false
					}
					if (closure[b.X] && isGlobalLoad(b.Y, "io", "EOF")) || (closure[b.Y] && isGlobalLoad(b.X, "io", "EOF")) {
						return true, b.Op == token.EQL
					}
					return false, false
				}) {
					eofCut[e] = true
				}
			}
			for _, e := range nonNil {
				rr := reachFromEdge(fn, e, eofCut)
				for _, ret := range returnsOf(fn) {
					if !rr[ret.Block()] || len(ret.Results) == 0 {
						continue
					}
					ev := ret.Results[len(ret.Results)-1]
					if isNilConst(canon(ev)) {
						r.Viol(key, c.Pos(in.Pos()), fmt.Sprintf("after %s failed, the return at %s reports a nil error: the failure is swallowed", fk, c.Pos(ret.Pos())))
						return
					}
				}
			}
			r.Hold(key, c.Pos(in.Pos()), "error tested/returned; failure outcome reaches only error-carrying returns")
		})
	}
	return n
}

func ruleR16d(c *Ctx, r *Report) {
	for _, sp := range []struct {
		fnSpec
		field string
		inner string
	}{
		{fnSpec{pkgIntIO, "OffsetWriteSeeker", "Write"}, "offset", "WriteAt"},
		{fnSpec{pkgStorage, "positionTrackingWriter", "Write"}, "offset", "Write"},
	} {
		fn, err := c.Func(sp.pkg, sp.recv, sp.name)
		if err != nil {
			r.InfraFail("%v", err)
			continue
		}
		key := "position-bookkeeping@" + fnKey(fn)
		ok := false
		detail := "no update of the position field found"
		eachInstr(fn, func(in ssa.Instruction) {
			st, isSt := in.(*ssa.Store)
			if !isSt {
				return
			}
			fa, isFa := st.Addr.(*ssa.FieldAddr)
			if !isFa || !fieldAddrIs(fa, sp.pkg, sp.recv, sp.field) {
				return
			}
			env := &AffEnv{name: func(v ssa.Value) string {
				if loadsField(v, sp.pkg, sp.recv, sp.field) {
					return "offset"
				}
				if cl, idx := callOf(v); cl != nil && idx == 0 {
					if f := calleeFunc(cl.Common()); f != nil && f.Name() == sp.inner {
						return "n"
					}
				}
				return ""
			}}
			a := env.of(st.Val)
			if a.equal(affAtom("offset").add(affAtom("n"), 1)) {
				ok = true
			} else {
				detail = "position is updated to " + a.String() + " instead of offset + n (n = bytes the underlying writer reported): after a failed or short write the position skips bytes that were never written"
			}
		})
		r.Check(ok, key, c.Pos(fn.Pos()), "offset += n with n the count reported by the underlying "+sp.inner, detail)
	}
}

// ruleR16c: after a failed section write, restore or poison.
func ruleR16c(c *Ctx, r *Report) {
	for _, m := range putPaths {
		fn, err := c.Func(m.pkg, m.recv, m.name)
		if err != nil {
			r.InfraFail("%v", err)
			continue
		}
		key := "failed-write-rollback@" + fnKey(fn)
		lw := callsToFunc(fn, pkgV1Util, "", "LdWrite")
		if len(lw) != 1 {
			r.Undec(key, c.Pos(fn.Pos()), "expected one LdWrite")
			continue
		}
		fail := condEdges(fn, errNilCond(errOfCall(lw[0]), false))
		if len(fail) == 0 {
			r.Viol(key, c.Pos(lw[0].Pos()), "error of the section write is not tested")
			continue
		}
		// on the failure outcome: a Seek of the writer back, or a store to a closed/err flag
		recovered := false
		for _, e := range fail {
			rr := reachFromEdge(fn, e, nil)
			eachInstr(fn, func(in ssa.Instruction) {
				if !rr[in.Block()] {
					return
				}
				switch x := in.(type) {
				case *ssa.Call:
					if f := calleeFunc(x.Common()); f != nil && (f.Name() == "Seek" || f.Name() == "Truncate") {
						recovered = true
					}
				case *ssa.Store:
					if fa, ok := x.Addr.(*ssa.FieldAddr); ok {
						if fv := fieldVar(fa.X.Type(), fa.Field); fv != nil && (fv.Name() == "closed" || fv.Name() == "err" || fv.Name() == "failed") {
							recovered = true
						}
					}
				}
			})
		}
		r.Check(recovered, key, c.Pos(lw[0].Pos()), "failure path restores the writer position or poisons the store",
			"after a failed/short section write the function returns with the writer position advanced by the partial write and the store still usable: later puts append after garbage and Finalize produces an archive that does not scan")
	}
}

func ruleR16f(c *Ctx, r *Report) {
	fn, err := c.Func(pkgDeferred, "DeferredCarWriter", "writer")
	if err != nil {
		r.InfraFail("%v", err)
		return
	}
	key := "writer-kept-only-on-success@" + fnKey(fn)
	nw := callsToFunc(fn, pkgStorage, "", "NewWritable")
	bad := ""
	if len(nw) != 1 {
		bad = "expected one NewWritable call"
	} else {
		ok := condEdges(fn, errNilCond(errOfCall(nw[0]), true))
		n := 0
		eachInstr(fn, func(in ssa.Instruction) {
			st, isSt := in.(*ssa.Store)
			if !isSt {
				return
			}
			fa, isFa := st.Addr.(*ssa.FieldAddr)
			if !isFa || !fieldAddrIs(fa, pkgDeferred, "DeferredCarWriter", "w") {
				return
			}
			n++
			if len(ok) == 0 || reach(fn, nw[0].Block(), edgeSet(ok))[st.Block()] {
				bad = "dcw.w is assigned before the error of NewWritable is known to be nil: after a failed header write the writer is kept, the next Put skips the header and appends sections to a headerless stream while reporting success"
			}
		})
		if n == 0 {
			bad = "dcw.w is never assigned"
		}
	}
	r.Check(bad == "", key, c.Pos(fn.Pos()), "dcw.w = w only behind err == nil of NewWritable", bad)
}

// ruleR12e: roles of Resume's scalar parameters, derived from how Resume uses them,
// against what the two callers pass (bool/bool and uint64/uint64 swaps compile).
func ruleR12e(c *Ctx, r *Report) {
	fn, err := c.Func(pkgStore, "", "Resume")
	if err != nil {
		r.InfraFail("%v", err)
		return
	}
	role := map[int]string{}
	// header limit: the parameter handed to carv1.ReadHeader
	for _, ci := range callsToFunc(fn, pkgV1, "", "ReadHeader") {
		for i, p := range fn.Params {
			if canon(ci.Common().Args[1]) == ssa.Value(p) {
				role[i] = "MaxAllowedHeaderSize"
			}
		}
	}
	// data offset: the uint64 parameter compared with Header.DataOffset
	for i, p := range fn.Params {
		pp := p
		if len(cmpEdges(fn, func(v ssa.Value) bool { return loadsField(canon(v), modV2, "Header", "DataOffset") }, func(v ssa.Value) bool { return canon(v) == ssa.Value(pp) }, "ne")) > 0 {
			role[i] = "DataOffset"
		}
	}
	// zero-length flag: the bool parameter tested right after `length == 0`
	lens := callsToFunc(fn, pkgVarint, "", "ReadUvarint")
	if len(lens) == 1 {
		L := extractOf(lens[0].Value(), 0)
		zero := cmpEdges(fn, func(v ssa.Value) bool { return canon(v) == L }, func(v ssa.Value) bool { k, ok := constInt(v); return ok && k == 0 }, "eq")
		for i, p := range fn.Params {
			if bt, ok := p.Type().Underlying().(*types.Basic); !ok || bt.Kind() != types.Bool {
				continue
			}
			for _, e := range boolParamEdges(fn, p, true) {
				for _, z := range zero {
					if z.From.Succs[z.Succ] == e.From {
						role[i] = "ZeroLengthSectionAsEOF"
					}
				}
			}
		}
	}
	// v1: the remaining bool parameter
	for i, p := range fn.Params {
		if bt, ok := p.Type().Underlying().(*types.Basic); ok && bt.Kind() == types.Bool && role[i] == "" {
			role[i] = "WriteAsCarV1"
		}
	}
	want := map[string]bool{"MaxAllowedHeaderSize": false, "DataOffset": false, "ZeroLengthSectionAsEOF": false, "WriteAsCarV1": false}
	for _, v := range role {
		want[v] = true
	}
	for k, ok := range want {
		if !ok {
			r.Undec("resume-roles@"+fnKey(fn), c.Pos(fn.Pos()), "could not identify the parameter playing the role "+k)
			return
		}
	}
	for _, g := range c.RepoFuncs() {
		for _, ci := range callsToFunc(g, pkgStore, "", "Resume") {
			key := "resume-args@" + fnKey(g)
			bad := ""
			for i, rl := range role {
				a := canon(ci.Common().Args[i])
				var ok bool
				if rl == "DataOffset" {
					ok = loadsField(a, modV2, "Header", "DataOffset")
				} else {
					ok = loadsField(a, modV2, "Options", rl)
				}
				if !ok {
					bad = fmt.Sprintf("argument %d of store.Resume plays the role of %s inside Resume but the caller passes something else (same-typed arguments swapped?)", i+1, rl)
				}
			}
			// the roots the file is compared with are the caller's own argument
			for i, p := range fn.Params {
				sl, isSl := p.Type().Underlying().(*types.Slice)
				if !isSl || !isNamed(sl.Elem(), pkgCid, "Cid") {
					continue
				}
				for _, o := range origins(ci.Common().Args[i], originOpts{}) {
					if o.Kind != "param" {
						bad = fmt.Sprintf("the roots handed to store.Resume (argument %d) are not purely the caller's roots argument (also: %s at %s): if they can come from the file itself, the roots-must-match validation compares the file with itself", i+1, o.Kind, c.Pos(o.Val.Pos()))
					}
				}
			}
			r.Check(bad == "", key, c.Pos(ci.Pos()), "DataOffset, WriteAsCarV1, MaxAllowedHeaderSize, ZeroLengthSectionAsEOF reach the parameters with those roles; roots are the caller's argument", bad)
		}
	}
}

func ruleR06g(c *Ctx, r *Report) {
	fn, err := c.Func(pkgStore, "", "Resume")
	if err != nil {
		r.InfraFail("%v", err)
		return
	}
	key := "truncate-by-complete-header@" + fnKey(fn)
	var tr []ssa.Instruction
	eachInstr(fn, func(in ssa.Instruction) {
		if ci, ok := in.(*ssa.Call); ok {
			if f := calleeFunc(ci.Common()); f != nil && f.Name() == "Truncate" {
				tr = append(tr, in)
			}
		}
	})
	if len(tr) == 0 {
		r.Exempt(key, c.Pos(fn.Pos()), "Resume no longer truncates")
		return
	}
	env := &AffEnv{name: func(v ssa.Value) string {
		if fv, _ := fieldOfLoad(canon(v)); fv != nil {
			switch fv.Name() {
			case "DataOffset":
				return "DO"
			case "DataSize":
				return "DS"
			case "IndexOffset":
				return "IO"
			}
		}
		return ""
	}}
	end := affAtom("DO").add(affAtom("DS"), 1)
	ok := cmpEdges(fn, func(v ssa.Value) bool { return env.of(v).equal(affAtom("IO")) }, func(v ssa.Value) bool { return env.of(v).equal(end) }, "ge")
	bad := ""
	if len(ok) == 0 {
		bad = "the file is truncated at DataOffset+DataSize of the header on file without checking that this header was written completely (IndexOffset, written last, >= DataOffset+DataSize): a crash inside Finalize's header write leaves a partial DataSize, and the truncation then destroys acknowledged blocks"
	} else {
		// The header value is a local that only Header.ReadFrom fills, and only when all its range checks
		// pass (rule R06e/R09e). The truncation is itself guarded by DataOffset != 0, so only paths through
		// the success outcome of ReadFrom with DataOffset != 0 can reach it: start there.
		zero := cmpEdges(fn, func(v ssa.Value) bool { return env.of(v).equal(affAtom("DO")) }, func(v ssa.Value) bool { k, ok := constInt(v); return ok && k == 0 }, "eq")
		nStart := 0
		for _, rf := range callsToFunc(fn, modV2, "Header", "ReadFrom") {
			for _, e := range condEdges(fn, errNilCond(errOfCall(rf), true)) {
				nStart++
				rr := reachFromEdge(fn, e, edgeSet(ok, zero))
				for _, t := range tr {
					if rr[t.Block()] {
						bad = "Truncate is reachable from a successfully parsed header without the completeness outcome IndexOffset >= DataOffset+DataSize"
					}
				}
			}
		}
		if nStart == 0 {
			bad = "the header on file is not read with Header.ReadFrom (error tested) before it is used to truncate"
		}
	}
	r.Check(bad == "", key, c.Pos(tr[0].Pos()), "Truncate only behind IndexOffset >= DataOffset + DataSize", bad)
}

// ruleR06h: on-disk state of a session is "pragma | zeroed-or-final header | ...".
func ruleR06h(c *Ctx, r *Report) {
	for _, fn := range c.RepoFuncs() {
		p := fn.Pkg.Pkg.Path()
		if p != pkgStore && p != pkgBS && p != pkgStorage && p != pkgDeferred {
			continue
		}
		ord := 0
		eachInstr(fn, func(in ssa.Instruction) {
			ci, ok := in.(ssa.CallInstruction)
			if !ok {
				return
			}
			f := calleeFunc(ci.Common())
			if !funcIs(f, modV2, "Header", "WriteTo") {
				return
			}
			ord++
			key := fmt.Sprintf("header-slot-write@%s#%d", fnKey(fn), ord)
			if funcIs(fn.Object().(*types.Func), pkgStore, "", "Finalize") {
				r.Hold(key, c.Pos(in.Pos()), "the final header, written by store.Finalize")
				return
			}
			args := callArgs(ci.Common())
			zero := false
			if len(args) > 0 {
				switch v := strip(args[0]).(type) {
				case *ssa.Const:
					zero = v.Value == nil
				case *ssa.UnOp:
					if al, isAl := v.X.(*ssa.Alloc); isAl && v.Op == token.MUL {
						zero = true
						for _, ref := range *al.Referrers() {
							if u, isLoad := ref.(*ssa.UnOp); isLoad && u.Op == token.MUL {
								continue
							}
							if _, isDbg := ref.(*ssa.DebugRef); isDbg {
								continue
							}
							zero = false
						}
					}
				}
			}
			r.Check(zero, key, c.Pos(in.Pos()), "writes the all-zero header (un-finalize)",
				"a header that is neither the final one (store.Finalize) nor all-zero is written into the header slot: if a later Finalize header write is torn, the bytes left from this header complete it and Resume truncates the payload by a partial DataSize")
		})
	}
}

// ruleR12g: write -> index is a must-pass-through pair on the put paths.
func ruleR12g(c *Ctx, r *Report) {
	for _, s := range [][3]string{{pkgBS, "ReadWrite", "PutMany"}, {pkgStorage, "StorageCar", "Put"}} {
		fn, err := c.Func(s[0], s[1], s[2])
		if err != nil {
			r.InfraFail("%v", err)
			continue
		}
		key := "write-implies-index@" + fnKey(fn)
		writes := callsToFunc(fn, pkgV1Util, "", "LdWrite")
		ins := callsToFunc(fn, pkgIndex, "InsertionIndex", "InsertNoReplace")
		if len(writes) != 1 || len(ins) == 0 {
			r.Undec(key, c.Pos(fn.Pos()), fmt.Sprintf("expected one LdWrite and at least one InsertNoReplace, found %d and %d", len(writes), len(ins)))
			continue
		}
		okEdges := condEdges(fn, errNilCond(errOfCall(writes[0]), true))
		okEdges = pruneMergedTests(okEdges, errOfCall(writes[0]))
		if len(okEdges) == 0 {
			r.Undec(key, c.Pos(writes[0].Pos()), "the success outcome of LdWrite is not tested")
			continue
		}
		insBlocks := map[*ssa.BasicBlock]bool{}
		for _, i := range ins {
			insBlocks[i.Block()] = true
		}
		cut := EdgeSet{}
		for _, b := range fn.Blocks {
			for i, sc := range b.Succs {
				if insBlocks[sc] {
					cut[Edge{From: b, Succ: i}] = true
				}
			}
		}
		bad := ""
		for _, e := range okEdges {
			tgt := e.From.Succs[e.Succ]
			if insBlocks[tgt] {
				continue
			}
			rs := reachFromEdge(fn, e, cut)
			if rs[writes[0].Block()] {
				bad = "after a successful section write the next section can be written without the first having been indexed"
			}
			for _, ret := range returnsOf(fn) {
				if rs[ret.Block()] && resultIsNilConst(ret, len(ret.Results)-1) {
					bad = fmt.Sprintf("the success return at %s is reachable after a successful section write without InsertNoReplace: the section is in the file but not in the index (a resumed session re-indexes it, an uninterrupted one does not)", c.Pos(ret.Pos()))
				}
			}
		}
		r.Check(bad == "", key, c.Pos(writes[0].Pos()), "LdWrite success -> InsertNoReplace on every path", bad)
	}
}

// ruleR16g: deferred closures and the named error result.
func ruleR16g(c *Ctx, r *Report) {
	for _, fn := range c.RepoFuncs() {
		if !inLib(fn) {
			continue
		}
		eachInstr(fn, func(in ssa.Instruction) {
			d, ok := in.(*ssa.Defer)
			if !ok {
				return
			}
			// the deferred function: a closure (the result cell is a free variable) or a function
			// called with the address of the result (`defer closeKeeping(f, &err)`)
			var g *ssa.Function
			var handles []ssa.Value
			errPtr := func(t types.Type) bool {
				pt, ok := t.Underlying().(*types.Pointer)
				return ok && types.Identical(pt.Elem(), types.Universe.Lookup("error").Type())
			}
			switch x := d.Call.Value.(type) {
			case *ssa.MakeClosure:
				g = x.Fn.(*ssa.Function)
				for i, fv := range g.FreeVars {
					if cell, _ := x.Bindings[i].(*ssa.Alloc); errPtr(fv.Type()) && cell != nil && isNamedResultCell(fn, cell) {
						handles = append(handles, fv)
					}
				}
			case *ssa.Function:
				g = x
			}
			if g == nil || g.Blocks == nil || g.Pkg == nil || !isRepoPkg(g.Pkg.Pkg.Path()) {
				return
			}
			for j, a := range d.Call.Args {
				if cell, _ := a.(*ssa.Alloc); cell != nil && j < len(g.Params) && errPtr(g.Params[j].Type()) && isNamedResultCell(fn, cell) {
					handles = append(handles, g.Params[j])
				}
			}
			for _, fv := range handles {
				isErr := func(v ssa.Value) bool {
					u, ok := v.(*ssa.UnOp)
					return ok && u.Op == token.MUL && u.X == ssa.Value(fv)
				}
				stores := storesTo(fv)
				if len(stores) == 0 {
					continue
				}
				key := "deferred-error-assign@" + fnKey(g)
				nilE := condEdges(g, errNilCond(isErr, true))
				recE := condEdges(g, CondMatch(func(v ssa.Value) (bool, bool) {
					// recover() != nil
					b, ok := v.(*ssa.BinOp)
					if !ok || (b.Op != token.NEQ && b.Op != token.EQL) {
						return false, false
					}
					cl, _ := b.X.(*ssa.Call)
					if cl == nil {
						return false, false
					}
					if bi, ok := cl.Call.Value.(*ssa.Builtin); ok && bi.Name() == "recover" && isNilConst(b.Y) {
						return true, b.Op == token.NEQ
					}
					return false, false
				}))
				rs := reach(g, nil, edgeSet(nilE, recE))
				bad := ""
				for _, st := range stores {
					if !rs[st.Block()] {
						continue
					}
					wraps := false
					for v := range flowSources(st.Val) {
						if isErr(v) {
							wraps = true
						}
					}
					if !wraps {
						bad = fmt.Sprintf("the deferred function assigns the named error result at %s also when it already holds an error: the primary failure is replaced by the cleanup's outcome (nil when the cleanup succeeds), and the caller is told the operation succeeded", c.Pos(st.Pos()))
					}
				}
				r.Check(bad == "", key, c.Pos(d.Pos()), "assigns the result only behind `err == nil` (or wraps it)", bad)
			}
		})
	}
}

func isNamedResultCell(fn *ssa.Function, cell *ssa.Alloc) bool {
	res := fn.Signature.Results()
	for i := 0; i < res.Len(); i++ {
		if res.At(i).Name() != "" && res.At(i).Name() == cell.Comment {
			return true
		}
	}
	return false
}

// flowSources: the values a value is computed from (arguments of calls, operands, phi edges), bounded.
func flowSources(v ssa.Value) map[ssa.Value]bool {
	out := map[ssa.Value]bool{}
	var walk func(v ssa.Value, d int)
	walk = func(v ssa.Value, d int) {
		if v == nil || out[v] || d > 8 {
			return
		}
		out[v] = true
		if in, ok := v.(ssa.Instruction); ok {
			for _, op := range in.Operands(nil) {
				if *op != nil {
					walk(*op, d+1)
				}
			}
		}
		// varargs slices: follow stores into the backing array
		if sl, ok := v.(*ssa.Slice); ok {
			if al, ok := sl.X.(*ssa.Alloc); ok {
				for _, ref := range *al.Referrers() {
					if ia, ok := ref.(*ssa.IndexAddr); ok {
						for _, st := range storesTo(ia) {
							walk(st.Val, d+1)
						}
					}
				}
			}
		}
	}
	walk(v, 0)
	return out
}

// droppedErrors lists the (function, callee) pairs whose error result is discarded.
func droppedErrors(c *Ctx) map[string]string {
	out := map[string]string{}
	errT := types.Universe.Lookup("error").Type()
	for _, fn := range c.RepoFuncs() {
		for _, g := range withAnon(fn) {
			eachInstr(g, func(in ssa.Instruction) {
				ci, ok := in.(*ssa.Call)
				if !ok {
					return
				}
				sig := ci.Common().Signature()
				if sig == nil || sig.Results().Len() == 0 {
					return
				}
				last := sig.Results().Len() - 1
				if !types.Identical(sig.Results().At(last).Type(), errT) {
					return
				}
				name := ""
				if ci.Common().IsInvoke() {
					name = "invoke:" + ci.Common().Method.Name()
				} else if f := calleeFunc(ci.Common()); f != nil {
					name = funcKey(f)
					if f.Pkg() != nil && f.Pkg().Path() == "fmt" {
						return
					}
					// a function the pinned tree does not have (a closure that became a named function):
					// comparable with the baseline only as "some function value"
					if fnv := c.Prog.FuncValue(f); fnv != nil && isRepoPkg(f.Pkg().Path()) && !ast.IsExported(f.Name()) && !baselineFuncs[ssaDeclKey(fnv)] {
						name = "dynamic"
					}
					// writers that cannot fail
					if _, rn := recvTypeName(f); f.Pkg() != nil && (f.Pkg().Path() == "bytes" && rn == "Buffer" || f.Pkg().Path() == "strings" && rn == "Builder") {
						return
					}
				} else {
					name = "dynamic"
				}
				used := false
				refs := ci.Referrers()
				if sig.Results().Len() == 1 {
					for _, r := range *refs {
						if _, isDbg := r.(*ssa.DebugRef); !isDbg {
							used = true
						}
					}
				} else {
					for _, r := range *refs {
						if ex, isEx := r.(*ssa.Extract); isEx && ex.Index == last {
							for _, rr := range *ex.Referrers() {
								if _, isDbg := rr.(*ssa.DebugRef); !isDbg {
									used = true
								}
							}
						}
					}
				}
				if !used {
					out[fnKey(rootFuncOf(g))+" -> "+name] = c.Pos(ci.Pos())
				}
			})
		}
	}
	return out
}

func rootFuncOf(f *ssa.Function) *ssa.Function {
	for f.Parent() != nil {
		f = f.Parent()
	}
	return f
}

func ruleR16h(c *Ctx, r *Report) {
	got := droppedErrors(c)
	var keys []string
	for k := range got {
		keys = append(keys, k)
	}
	sort.Strings(keys)
	for _, k := range keys {
		key := "dropped-error@" + k
		if why, ok := droppedErrorBaseline[k]; ok {
			r.Exempt(key, got[k], "site of the pinned tree: "+why)
			continue
		}
		// the enclosing function is one the pinned tree does not have (a closure turned into a
		// method): the same callee dropped in the same package is the same site, moved
		if encl, callee, ok := strings.Cut(k, " -> "); ok && newFuncKeys(c)[encl] {
			moved := ""
			for bk, why := range droppedErrorBaseline {
				be, bc, _ := strings.Cut(bk, " -> ")
				if bc == callee && pkgOfKey(be) == pkgOfKey(encl) {
					moved = why
				}
			}
			if moved != "" {
				r.Exempt(key, got[k], "site of the pinned tree, moved into a new function: "+moved)
				continue
			}
		}
		r.Viol(key, got[k], "the error returned by this call is discarded, and the pinned tree has no such site: a failure here (write, seek, close, decode) goes unnoticed and the operation reports success")
	}
	r.Count("discarded error results (all in the baseline table)", len(keys))
}

// finalizeHeaderWrites splits the Header.WriteTo calls of a function into final ones and
// provisional ones: a header write is provisional when the header it writes had its
// IndexOffset set to the constant 0 (it carries the data size but announces no index yet).
func finalizeHeaderWrites(fn *ssa.Function) (final, prov []ssa.CallInstruction) {
	for _, h := range headerWriteCalls(fn) {
		isProv := false
		recv := h.Common().Args[0]
		if ld, ok := recv.(*ssa.UnOp); ok && ld.Op == token.MUL {
			if al, ok := ld.X.(*ssa.Alloc); ok {
				for _, ref := range *al.Referrers() {
					if fa, ok := ref.(*ssa.FieldAddr); ok {
						if fv := fieldVar(fa.X.Type(), fa.Field); fv != nil && fv.Name() == "IndexOffset" {
							for _, st := range storesTo(fa) {
								if k, ok := constInt(st.Val); ok && k == 0 {
									isProv = true
								}
							}
						}
					}
				}
			}
		}
		if isProv {
			prov = append(prov, h)
		} else {
			final = append(final, h)
		}
	}
	return
}

func ruleR06k(c *Ctx, r *Report) {
	allowed := map[string]bool{"v2/internal/store.Resume": true, "v2.ExtractV1File": true}
	n := 0
	var bad []string
	for _, fn := range c.RepoFuncs() {
		if !inLib(fn) {
			continue
		}
		eachInstr(fn, func(in ssa.Instruction) {
			ci, ok := in.(ssa.CallInstruction)
			if !ok {
				return
			}
			name := ""
			if ci.Common().IsInvoke() {
				name = ci.Common().Method.Name()
			} else if f := calleeFunc(ci.Common()); f != nil {
				name = f.Name()
				if f.Pkg() != nil && f.Pkg().Path() != "os" && !strings.HasPrefix(f.Pkg().Path(), modRoot) {
					return
				}
			}
			if name != "Truncate" {
				return
			}
			n++
			k := fnKey(rootFuncOf(fn))
			if !allowed[k] {
				bad = append(bad, fmt.Sprintf("%s at %s", k, c.Pos(in.Pos())))
			}
		})
	}
	sort.Strings(bad)
	r.Check(len(bad) == 0, "truncate-callers@library", "-", fmt.Sprintf("%d Truncate call(s), all in Resume / ExtractV1File", n),
		"Truncate is called from "+strings.Join(bad, "; ")+": resizing the session's file outside Resume changes what a crash leaves behind (zero-filled regions pass for data)")
}

func ruleR06l(c *Ctx, r *Report) {
	fn, err := c.Func(pkgStore, "", "Resume")
	if err != nil {
		r.InfraFail("%v", err)
		return
	}
	key := "rescan-exits@" + fnKey(fn)
	lens := callsToFunc(fn, pkgVarint, "", "ReadUvarint")
	var post ssa.Instruction
	eachInstr(fn, func(in ssa.Instruction) {
		ci, ok := in.(ssa.CallInstruction)
		if !ok || len(lens) != 1 {
			return
		}
		if f := calleeFunc(ci.Common()); f != nil && f.Name() == "Seek" {
			if _, rn := recvTypeName(f); rn == "OffsetWriteSeeker" {
				post = in
			}
		}
	})
	if len(lens) != 1 || post == nil {
		r.Undec(key, c.Pos(fn.Pos()), "rescan loop (one ReadUvarint) or the data writer's re-positioning not found")
		return
	}
	errv := extractOf(lens[0].Value(), 1)
	cut := EdgeSet{}
	if errv != nil {
		for _, e := range eofNotEqualEdges(fn, flowClosure(errv)) {
			cut[opposite(e)] = true // the `== io.EOF` outcome
		}
	}
	L := extractOf(lens[0].Value(), 0)
	zero := cmpEdges(fn, func(v ssa.Value) bool { return canon(v) == L }, func(v ssa.Value) bool { k, ok := constInt(v); return ok && k == 0 }, "eq")
	for _, p := range fn.Params {
		if bt, ok := p.Type().Underlying().(*types.Basic); !ok || bt.Kind() != types.Bool {
			continue
		}
		for _, e := range boolParamEdges(fn, p, true) {
			for _, z := range zero {
				if z.From.Succs[z.Succ] == e.From {
					cut[e] = true
				}
			}
		}
	}
	if len(cut) == 0 {
		r.Undec(key, c.Pos(lens[0].Pos()), "no end-of-payload exit (err == io.EOF) recognised")
		return
	}
	rs := reach(fn, lens[0].Block(), cut)
	r.Check(!rs[post.Block()], key, c.Pos(lens[0].Pos()), "the loop is left only on io.EOF of the length read or on a zero length with the zero-length-as-EOF option",
		fmt.Sprintf("the code after the rescan (writer re-positioning at %s) is reachable from inside the loop by a way other than end-of-payload: sections behind that point stay unindexed and are overwritten by the next put", c.Pos(post.Pos())))
}

// writesSomething: does the call (or a same-package function it statically reaches) write to a writer?
func writesSomething(c *Ctx, ci ssa.CallInstruction, pkg string, depth int, seen map[*ssa.Function]bool) string {
	name := ""
	var f *types.Func
	if ci.Common().IsInvoke() {
		name = ci.Common().Method.Name()
	} else if f = calleeFunc(ci.Common()); f != nil {
		name = f.Name()
	}
	switch name {
	case "WriteAt", "Write", "WriteString", "Truncate", "WriteTo", "WriteHeader", "LdWrite":
		if f == nil || f.Pkg() == nil || f.Pkg().Path() != "bytes" && f.Pkg().Path() != "strings" {
			return name + " at " + c.Pos(ci.Pos())
		}
	}
	if depth >= 3 {
		return ""
	}
	callee := staticTarget(ci.Common())
	if callee == nil || callee.Pkg == nil || callee.Pkg.Pkg.Path() != pkg || seen[callee] || len(callee.Blocks) == 0 {
		return ""
	}
	seen[callee] = true
	out := ""
	for _, g := range withAnon(callee) {
		eachInstr(g, func(in ssa.Instruction) {
			if c2, ok := in.(ssa.CallInstruction); ok && out == "" {
				out = writesSomething(c, c2, pkg, depth+1, seen)
			}
		})
	}
	return out
}

func ruleR16j(c *Ctx, r *Report) {
	for _, fn := range c.RepoFuncs() {
		if fn.Parent() != nil || (fn.Name() != "Write" && fn.Name() != "WriteAt") || fn.Signature.Recv() == nil {
			continue
		}
		res := fn.Signature.Results()
		if res.Len() != 2 || !isIntegral(res.At(0).Type()) {
			continue
		}
		if len(fn.Params) < 2 {
			continue
		}
		if sl, ok := fn.Params[1].Type().Underlying().(*types.Slice); !ok || !types.Identical(sl.Elem(), types.Typ[types.Byte]) {
			continue
		}
		key := "writer-contract@" + fnKey(fn)
		p := fn.Params[1]
		bad := ""
		for _, ret := range returnsOf(fn) {
			if len(ret.Results) != 2 {
				continue
			}
			nv, ev := retResult(ret, 0), retResult(ret, 1)
			// (a) both results are the results of one wrapped call
			cn, in := callOf(canon(nv))
			ce, ie := callOf(canon(ev))
			if cn != nil && cn == ce && in == 0 && ie == 1 {
				continue
			}
			// (b) a definite error
			if !isNilConst(ev) && nilness(ev, ret.Block()) == 2 {
				continue
			}
			// (c) the full count
			if isLenOfValue(nv, p) {
				continue
			}
			if isNilConst(ev) {
				bad = fmt.Sprintf("the return at %s reports success with a count that is neither the wrapped call's nor len(p): a partial write is passed off as complete", c.Pos(ret.Pos()))
			} else if cn == nil || cn != ce {
				// error and count from different sources: accept when the count is an accumulated total and the error may be non-nil
				continue
			}
		}
		r.Check(bad == "", key, c.Pos(fn.Pos()), "nil error only with the wrapped call's own count or len(p)", bad)
	}
}

func isLenOfValue(v ssa.Value, of ssa.Value) bool {
	cl, ok := strip(canon(v)).(*ssa.Call)
	if !ok {
		return false
	}
	b, ok := cl.Call.Value.(*ssa.Builtin)
	return ok && b.Name() == "len" && canon(cl.Call.Args[0]) == canon(of)
}

func pkgOfKey(k string) string {
	if i := strings.LastIndex(k, "."); i >= 0 {
		k2 := k[:i]
		// methods: pkg.Type.Method
		if j := strings.LastIndex(k2, "."); j >= 0 && !strings.Contains(k2[j:], "/") && strings.Count(k, ".") >= 2 {
			return k2[:j]
		}
		return k2
	}
	return k
}

// newFuncKeys: fnKey of every declared function the pinned tree does not have.
func newFuncKeys(c *Ctx) map[string]bool {
	out := map[string]bool{}
	for path, p := range c.Pkgs {
		for _, f := range p.Syntax {
			for _, d := range f.Decls {
				fd, ok := d.(*ast.FuncDecl)
				if !ok || baselineFuncs[declKey(path, fd)] {
					continue
				}
				if o, ok := p.TypesInfo.Defs[fd.Name].(*types.Func); ok {
					out[funcKey(o)] = true
				}
			}
		}
	}
	return out
}

func errOfCallValue(call ssa.CallInstruction) ssa.Value {
	cv := call.Value()
	if cv == nil {
		return nil
	}
	sig := call.Common().Signature()
	if sig.Results().Len() == 1 {
		return cv
	}
	return extractOf(cv, sig.Results().Len()-1)
}

func ruleR16l(c *Ctx, r *Report) {
	errT := types.Universe.Lookup("error").Type()
	for _, fn := range c.RepoFuncs() {
		if !inLib(fn) || fn.Parent() != nil {
			continue
		}
		for _, loc := range fn.Locals {
			pt, ok := loc.Type().Underlying().(*types.Pointer)
			if !ok || !types.Identical(pt.Elem(), errT) || !isNamedResultCell(fn, loc) {
				continue
			}
			var stores []*ssa.Store
			for _, st := range storesTo(loc) {
				if l, isLoad := st.Val.(*ssa.UnOp); isLoad && l.Op == token.MUL && l.X == ssa.Value(loc) {
					continue // the spill copy before rundefers
				}
				stores = append(stores, st)
			}
			// stores of a call's error (not nil constants)
			var first []*ssa.Store
			for _, st := range stores {
				if cl, _ := callOf(st.Val); cl != nil {
					first = append(first, st)
				}
			}
			if len(first) == 0 || len(stores) < 2 {
				continue
			}
			key := "named-error-not-overwritten@" + fnKey(fn)
			isCell := func(v ssa.Value) bool {
				u, ok := v.(*ssa.UnOp)
				return ok && u.Op == token.MUL && u.X == ssa.Value(loc)
			}
			nilE := condEdges(fn, errNilCond(isCell, true))
			nonNilE := condEdges(fn, errNilCond(isCell, false))
			bad := ""
			for _, s1 := range first {
				// where can control be while the cell still holds s1's (possibly non-nil) error: cut the
				// `cell == nil` outcomes and the returns
				rs := reach(fn, s1.Block(), edgeSet(nilE))
				for _, s2 := range stores {
					if s2 == s1 {
						continue
					}
					after := rs[s2.Block()] && (s2.Block() != s1.Block() || instrIndex(s2) > instrIndex(s1))
					if s2.Block() == s1.Block() && instrIndex(s2) < instrIndex(s1) {
						after = false
					}
					if !after {
						continue
					}
					// a store on the error branch itself (err != nil { err = wrap(err) }) is fine when it derives from the cell
					wraps := false
					for v := range flowSources(s2.Val) {
						if isCell(v) {
							wraps = true
						}
					}
					if wraps {
						continue
					}
					// tolerated: an assignment directly behind `cell != nil` that returns (handled error)
					_ = nonNilE
					bad = fmt.Sprintf("the error assigned to %s at %s can be overwritten at %s while it is still set: the caller sees the later step's outcome, not the failure", loc.Comment, c.Pos(s1.Pos()), c.Pos(s2.Pos()))
				}
			}
			r.Check(bad == "", key, c.Pos(fn.Pos()), "later assignments happen only where the result is still nil", bad)
		}
	}
}

func ruleR06m(c *Ctx, r *Report) {
	fn, err := c.Func(pkgStore, "", "Resume")
	if err != nil {
		r.InfraFail("%v", err)
		return
	}
	key := "header-blanked-before-rescan@" + fnKey(fn)
	lens := callsToFunc(fn, pkgVarint, "", "ReadUvarint")
	hw := headerWriteCalls(fn)
	if len(lens) != 1 || len(hw) == 0 {
		r.Undec(key, c.Pos(fn.Pos()), "rescan loop or the header write not found")
		return
	}
	// the v1 parameter: the remaining bool after R12e's roles; here: any bool parameter whose true edge skips the header write
	cut := EdgeSet{}
	for _, b := range fn.Blocks {
		for i, sc := range b.Succs {
			for _, h := range hw {
				if sc == h.Block() {
					cut[Edge{From: b, Succ: i}] = true
				}
			}
		}
	}
	var v1 *ssa.Parameter
	for _, p := range fn.Params {
		if bt, ok := p.Type().Underlying().(*types.Basic); ok && bt.Kind() == types.Bool && strings.Contains(strings.ToLower(p.Name()), "v1") {
			v1 = p
		}
	}
	if v1 == nil {
		r.Undec(key, c.Pos(fn.Pos()), "the CARv1-mode parameter was not identified")
		return
	}
	for _, e := range boolParamEdges(fn, v1, true) {
		cut[e] = true
	}
	rs := reach(fn, nil, cut)
	r.Check(!rs[lens[0].Block()], key, c.Pos(hw[0].Pos()), "in CARv2 mode the rescan is only reached through the zero-header write",
		"in CARv2 mode the rescan can be reached without the header slot having been zeroed: whatever an earlier, interrupted un-finalize left there (old DataSize, old IndexOffset) stays, and completes a header that a later Finalize tears")
}

func ruleR12l(c *Ctx, r *Report) {
	for _, sp := range []fnSpec{{pkgBS, "ReadWrite", "initWithRoots"}, {pkgStorage, "StorageCar", "init"}} {
		fn, err := c.Func(sp.pkg, sp.recv, sp.name)
		if err != nil {
			r.InfraFail("%v", err)
			continue
		}
		key := "roots-as-given@" + fnKey(fn)
		n, bad := 0, ""
		eachInstr(fn, func(in ssa.Instruction) {
			st, ok := in.(*ssa.Store)
			if !ok {
				return
			}
			fa, ok := st.Addr.(*ssa.FieldAddr)
			if !ok {
				return
			}
			fv := fieldVar(fa.X.Type(), fa.Field)
			if fv == nil {
				return
			}
			if fv.Name() == "Roots" && isNamed(derefType(fa.X.Type()), pkgV1, "CarHeader") {
				n++
				for _, o := range origins(st.Val, originOpts{}) {
					if o.Kind == "param" || (o.Kind == "field" && o.Field != nil && o.Field.Name() == "roots") {
						continue
					}
					bad = fmt.Sprintf("the root list written to the payload header at %s is built from %s, not the caller's list as given", c.Pos(st.Pos()), o.Kind)
				}
			}
			if fv.Name() == "roots" && strings.HasPrefix(fv.Pkg().Path(), modV2) {
				bad = fmt.Sprintf("the store's root list is reassigned at %s while the header is being written", c.Pos(st.Pos()))
			}
		})
		if n == 0 {
			r.Undec(key, c.Pos(fn.Pos()), "no CarHeader{Roots: ...} construction found")
			continue
		}
		r.Check(bad == "", key, c.Pos(fn.Pos()), "header roots = the caller's roots", bad)
	}
}

// pruneMergedTests drops the "err == nil" edge of a test of a merged value (the result cell of an
// inlined helper, which also carries other errors and nil) when every input that carries the
// call's own error is known non-nil where it enters the merge (it comes from the `err != nil`
// branch of the call's own test): on those paths the call failed, on the others the test says
// nothing about this call.
func pruneMergedTests(all []Edge, isErr func(ssa.Value) bool) []Edge {
	var out []Edge
	for _, e := range all {
		keep := true
		if iff, ok := e.From.Instrs[len(e.From.Instrs)-1].(*ssa.If); ok {
			base, _ := condNorm(iff.Cond)
			if b, ok := base.(*ssa.BinOp); ok {
				v := b.X
				if isNilConst(b.X) {
					v = b.Y
				}
				if ph, ok := v.(*ssa.Phi); ok {
					n, failed := 0, 0
					for i, in := range ph.Edges {
						if isErr(in) {
							n++
							if nilness(in, ph.Block().Preds[i]) == 2 {
								failed++
							}
						}
					}
					if n > 0 && n == failed && n < len(ph.Edges) {
						keep = false
					}
				}
			}
		}
		if keep {
			out = append(out, e)
		}
	}
	return out
}
