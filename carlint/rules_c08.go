package main

import (
	"fmt"
	"go/token"
	"go/types"
	"sort"
	"strings"

	"golang.org/x/tools/go/ssa"
)

func init() {
	register(PropertyDef{
		ID: "C08",
		Explanation: "Decided statically (must-hold lock-set dataflow over the SSA of packages blockstore, storage, storage/deferred, with entry states " +
			"propagated to unexported helpers, synchronous callbacks, deferred closures (LIFO) and goroutines (explicit hand-off only)): " +
			"(R08a) every read/write of a guarded field and every call on a guarded pointee happens with the guarding lock held in a sufficient mode " +
			"(exclusive for writes and mutating callees); (R08b) every acquire is released on every path to a return, by a deferred release or a goroutine " +
			"the lock was handed to; (R08c) no function is called while holding a lock that it (transitively, through static calls and interface " +
			"dispatch onto repository types) acquires again, and the acquired-while-held relation between lock classes is acyclic. The guard table is " +
			"echoed in the evidence. This is sufficient for the absence of data races on the guarded state and of self-deadlock; " +
			"NOT decided: linearizability of histories, exactly-once de-duplication, races inside dependencies, deadlocks involving user callbacks or channels.",
		Assumptions: []string{
			"the guard table (which field is protected by which mutex) is complete; it is cross-checked against stores outside constructors",
			"methods only touch the mutex and fields of their own receiver (one instance per lock class per call chain)",
			"io.ReaderAt backings are safe for concurrent ReadAt (io.ReaderAt contract)",
		},
		Rules: []RuleDef{
			{ID: "R08a", Floor: 40, Doc: "lock-set: guarded field accesses and guarded-pointee calls need the class lock in sufficient mode", Run: ruleR08a},
			{ID: "R08b", Floor: 10, Doc: "pairing: each acquire is released on all paths to return (deferred, explicit, or handed to a goroutine that releases)", Run: ruleR08b},
			{ID: "R08c", Floor: 10, Doc: "no re-entrant acquisition through calls made while the lock is held; lock-class order acyclic", Run: ruleR08c},
			{ID: "R08e", Floor: 2, Doc: "atomicity of put: no lock release between store.ShouldPut and the InsertNoReplace it guards", Run: ruleR08e},
			{ID: "R08f", Floor: 2, Doc: "goroutines without the lock capture no slice/map/pointer loaded from a guarded field", Run: ruleR08f},
			{ID: "R08g", Floor: 6, Doc: "a struct that holds a mutex by value is never copied: no value receiver, by-value parameter, or whole-struct load of such a type in the repository (a copy has its own mutex: the method excludes nobody, or inherits a locked mutex and never returns)", Run: ruleR08g},
			{ID: "R08h", Floor: 1, Doc: "NewOffsetReadSeeker hands out a fresh cursor on every call: concurrent readers (Roots, AllKeysChan, index generation) each rely on a private position over the shared backing", Run: ruleR08h},
			{ID: "R08j", Floor: 6, Doc: "the lookup methods of the insertion index do not write to it: HasExactCID, HasMultihash, Get, GetAll, ForEach, ForEachCid, Marshal and Flatten store to no field of their receiver — StorageCar.Has and the read paths call them under the shared lock, concurrently", Run: ruleR08j},
			{ID: "R08k", Floor: 1, Doc: "PutMany decides and inserts block by block: the de-duplication decision for a block sees every block already written by this or a concurrent call (= R01f)", Run: ruleR01f},
			{ID: "R08l", Floor: 1, Doc: "no new mutable package-level state shared by all stores and readers (= R13k)", Run: ruleR13k},
			{ID: "R08m", Floor: 2, Doc: "concurrent listings and Roots calls of the read-only store each have their own cursor (= R07q)", Run: ruleR07q},
			{ID: "R08n", Floor: 2, Doc: "nothing is reported that was never put: an index hit is confirmed against the section's own CID/multihash before it is answered (= R07a)", Run: ruleR07a},
			{ID: "R08o", Floor: 1, Doc: "methods the pinned tree keeps free of writes to their receiver stay so: a method of the library that stores nothing into memory reached from its receiver today (lookups, listings, inspections, getters — the table of those that do write is baseline_writers.txt) does not start to, directly, in a closure, or through a function the pinned tree does not have", Run: ruleR08o},
			{ID: "R08p", Floor: 1, Doc: "nothing waits for other goroutines while it holds a store's lock: no sync.WaitGroup.Wait is reached with a guarded lock held (lock-set analysis)", Run: ruleR08p},
			{ID: "R08q", Floor: 6, Doc: "de-duplication decides for identity CIDs as for any other when they are stored (= R04d)", Run: ruleR04d},
			{ID: "R08r", Floor: 1, Doc: "a refused put of one goroutine leaves the shared deferred writer as it was (= R20f)", Run: ruleR20f},
			{ID: "R08s", Floor: 1, Doc: "a struct of the pinned library gets no new field that is written (assigned, updated as a map, or used through a pointer method): state carried between calls beyond what the pinned tree carries — a remembered result, a sticky error, a cache, a wait group — is shared by concurrent callers and makes answers depend on history (fields are listed in baseline_types.txt; new structs regrouping old fields are flattened first)", Run: ruleR08s},
			{ID: "R08t", Floor: 2, Doc: "a block is visible to other goroutines (in the index) only once its section is written (= R06a)", Run: ruleR06a},
			{ID: "R08u", Floor: 2, Doc: "a key listing ends for its consumer however it ends for its producer: every goroutine of an AllKeysChan that sends keys closes the channel on every way out (a defer, or a close before each return)", Run: ruleR08u},
			{ID: "R08d", Floor: 8, Doc: "guard-table completeness: every field of the concurrent types that is stored outside the constructor phase is in the guard table", Run: ruleR08d},
			{ID: "R08i", Floor: 1, Doc: "the lazily created writer is remembered only when its construction succeeded (a failed first initialisation is retried, not turned into a nil writer for the next caller) (= R16f)", Run: ruleR16f},
		},
	})
}

var lockCache struct {
	c  *Ctx
	la *lockAnalysis
}

func getLockAnalysis(c *Ctx) *lockAnalysis {
	if lockCache.c == c && lockCache.la != nil {
		return lockCache.la
	}
	autoGuard(c)
	la := newLockAnalysis(c)
	lockCache.c, lockCache.la = c, la
	return la
}

func ruleR08a(c *Ctx, r *Report) {
	la := getLockAnalysis(c)
	// validate the constructor-phase table: methods in it are only called from entries of it
	for _, fn := range la.funcs {
		if fn.Parent() != nil {
			continue
		}
		k := fnKey(fn)
		if _, ok := ctorPhase(c)[k]; !ok {
			continue
		}
		if fn.Signature.Recv() == nil {
			continue // package-level constructors build their own object
		}
		bad := ""
		for _, g := range la.funcs {
			eachInstr(g, func(in ssa.Instruction) {
				if ci, ok := in.(ssa.CallInstruction); ok && staticTarget(ci.Common()) == fn {
					if _, ok := ctorPhase(c)[fnKey(la.topLevel(g))]; !ok {
						bad = fmt.Sprintf("constructor-phase helper %s is called from %s at %s, outside object construction", k, fnKey(g), c.Pos(in.Pos()))
					}
				}
			})
		}
		r.Check(bad == "", "constructor-phase@"+k, c.Pos(fn.Pos()), "exempt: "+ctorPhase(c)[k]+" (validated: only called during construction)", bad)
	}
	ord := map[string]int{}
	for _, a := range la.accesses() {
		base := fmt.Sprintf("%s#%s", fnKey(a.fn), a.what)
		ord[base]++
		key := fmt.Sprintf("access@%s#%d", base, ord[base])
		if a.have >= a.need {
			r.Hold(key, c.Pos(a.at.Pos()), fmt.Sprintf("%s %s", a.class, modeName[a.have]))
		} else {
			r.Viol(key, c.Pos(a.at.Pos()), fmt.Sprintf("%s in %s needs %s %s but it is %s here (entry state of the function derived from all its call sites)", a.what, fnKey(a.fn), a.class, map[int]string{1: "at least shared", 2: "exclusive"}[a.need], modeName[a.have]))
		}
	}
	for k, why := range lockExemptFuncs {
		r.Exempt("exempt-func@"+k, "-", why)
	}
	r.Count("lock operations", la.nLockOp)
	r.Count("go statements", la.nGo)
	r.Count("functions analysed for locks", len(la.funcs))
}

func ruleR08b(c *Ctx, r *Report) {
	la := getLockAnalysis(c)
	for _, fn := range la.funcs {
		lf := la.flow[fn]
		// which classes does this function acquire itself?
		acquired := map[lockClass][]ssa.Instruction{}
		eachInstr(fn, func(in ssa.Instruction) {
			if ci, ok := in.(*ssa.Call); ok {
				if cl, op, ok := lockOp(ci.Common()); ok && (op == "Lock" || op == "RLock") {
					acquired[cl] = append(acquired[cl], in)
				}
			}
		})
		var classes []lockClass
		for cl := range acquired {
			classes = append(classes, cl)
		}
		sort.Slice(classes, func(i, j int) bool { return classes[i].String() < classes[j].String() })
		for _, cl := range classes {
			key := fmt.Sprintf("pairing@%s#%s", fnKey(fn), cl)
			bad := ""
			nret := 0
			for _, ret := range returnsOf(fn) {
				st := lf.before[ret]
				if st.top {
					continue
				}
				nret++
				if st.held[cl] == modeNone || st.deferred[cl] {
					continue
				}
				// held at return without deferred release: handed off?
				if la.returnAfterHandOff(fn, ret, cl) {
					continue
				}
				if why, ok := la.exemptLeak(fn, ret, cl); ok {
					r.Exempt(key+"#exit-"+c.Pos(ret.Pos()), c.Pos(ret.Pos()), why)
					continue
				}
				bad = fmt.Sprintf("return at %s leaves %s %s with no deferred release and no goroutine taking it over", c.Pos(ret.Pos()), cl, modeName[st.held[cl]])
			}
			r.Check(bad == "", key, c.Pos(acquired[cl][0].Pos()), fmt.Sprintf("%d acquire(s), released on all %d return paths", len(acquired[cl]), nret), bad)
		}
	}
}

// returnAfterHandOff: every path from entry to ret passes a go statement whose
// goroutine took over cl.
func (la *lockAnalysis) returnAfterHandOff(fn *ssa.Function, ret *ssa.Return, cl lockClass) bool {
	var goBlocks = map[*ssa.BasicBlock]bool{}
	for child, kind := range la.kind {
		if kind != "go" || child.Parent() != fn {
			continue
		}
		if la.handedOff(fn, la.site[child], child, cl) {
			goBlocks[la.site[child].Block()] = true
		}
	}
	// a goroutine started on a named function or method of the repository that releases the lock
	// (the closure of the pinned tree written as a method: `go b.sendAllKeys(...)`)
	eachInstr(fn, func(in ssa.Instruction) {
		g, ok := in.(*ssa.Go)
		if !ok {
			return
		}
		t := g.Call.StaticCallee()
		if t == nil || t.Blocks == nil || t.Parent() != nil || t.Pkg == nil || !isRepoPkg(t.Pkg.Pkg.Path()) {
			return
		}
		if la.handedOff(fn, in, t, cl) {
			goBlocks[in.Block()] = true
		}
	})
	if len(goBlocks) == 0 {
		return false
	}
	// remove go blocks: is ret still reachable from entry?
	seen := map[*ssa.BasicBlock]bool{}
	var work []*ssa.BasicBlock
	if !goBlocks[fn.Blocks[0]] {
		seen[fn.Blocks[0]] = true
		work = append(work, fn.Blocks[0])
	}
	for len(work) > 0 {
		b := work[len(work)-1]
		work = work[:len(work)-1]
		for _, s := range b.Succs {
			if !seen[s] && !goBlocks[s] {
				seen[s] = true
				work = append(work, s)
			}
		}
	}
	if goBlocks[ret.Block()] {
		return true
	}
	return !seen[ret.Block()]
}

// exemptLeak validates the single known "leak": the error exit taken when
// internal/io.NewOffsetReadSeeker(x, 0) fails, which cannot happen because that
// constructor only fails on an offset overflow that a zero offset cannot cause.
func (la *lockAnalysis) exemptLeak(fn *ssa.Function, ret *ssa.Return, cl lockClass) (string, bool) {
	if fnKey(fn) != "v2/blockstore.ReadOnly.AllKeysChan" {
		return "", false
	}
	// the return block must be reachable only through the err != nil outcome of a
	// NewOffsetReadSeeker(_, 0) call
	calls := callsToFunc(fn, pkgIntIO, "", "NewOffsetReadSeeker")
	for _, ci := range calls {
		if k, ok := constInt(ci.Common().Args[1]); !ok || k != 0 {
			continue
		}
		nonNil := condEdges(fn, errNilCond(errOfCall(ci), false))
		if len(nonNil) != 1 {
			continue
		}
		// ret reachable from entry only via that edge
		if reach(fn, nil, edgeSet(nonNil))[ret.Block()] {
			continue
		}
		if !reachFromEdge(fn, nonNil[0], nil)[ret.Block()] {
			continue
		}
		// validate callee: its error returns are all behind `base+off < base`
		callee, err := la.c.Func(pkgIntIO, "", "NewOffsetReadSeeker")
		if err != nil {
			return "", false
		}
		if !offsetCtorFailsOnlyOnOverflow(callee) {
			return "", false
		}
		return "error exit of NewOffsetReadSeeker(b.backing, 0): validated that the constructor's only error return is behind (base+off) < base, which a zero offset cannot satisfy", true
	}
	return "", false
}

func offsetCtorFailsOnlyOnOverflow(fn *ssa.Function) bool {
	if len(fn.Params) != 2 {
		return false
	}
	off := fn.Params[1]
	env := &AffEnv{}
	// edges where X < Y with X - Y == off  (newBase < oldBase, newBase = oldBase + off)
	lt := condEdges(fn, func(base ssa.Value) (bool, bool) {
		b, ok := base.(*ssa.BinOp)
		if !ok {
			return false, false
		}
		d := env.of(b.X).add(env.of(b.Y), -1)
		want := affAtom("param:" + off.Name())
		switch b.Op.String() {
		case "<":
			if d.equal(want) {
				return true, true
			}
		case ">":
			if d.scale(-1).equal(want) {
				return true, true
			}
		case ">=":
			if d.equal(want) {
				return true, false
			}
		case "<=":
			if d.scale(-1).equal(want) {
				return true, false
			}
		}
		return false, false
	})
	if len(lt) == 0 {
		return false
	}
	reachable := reach(fn, nil, edgeSet(lt))
	for _, ret := range returnsOf(fn) {
		if len(ret.Results) == 2 && !isNilConst(ret.Results[1]) && reachable[ret.Block()] {
			return false
		}
	}
	return true
}

func ruleR08c(c *Ctx, r *Report) {
	la := getLockAnalysis(c)
	acq := la.acquires()
	order := map[lockClass]map[lockClass]string{}
	n := 0
	for _, fn := range la.funcs {
		lf := la.flow[fn]
		ord := map[string]int{}
		eachInstr(fn, func(in ssa.Instruction) {
			ci, ok := in.(*ssa.Call)
			if !ok {
				return
			}
			if _, _, isLock := lockOp(ci.Common()); isLock {
				// direct acquire while holding the same class
				cl, op, _ := lockOp(ci.Common())
				st := lf.before[in]
				if (op == "Lock" || op == "RLock") && !st.top {
					for held := range st.held {
						if held == cl {
							r.Viol(fmt.Sprintf("reacquire@%s#%s", fnKey(fn), cl), c.Pos(in.Pos()), fmt.Sprintf("%s acquired while already held: sync mutexes are not re-entrant", cl))
						} else {
							if order[held] == nil {
								order[held] = map[lockClass]string{}
							}
							order[held][cl] = c.Pos(in.Pos())
						}
					}
				}
				return
			}
			st := lf.before[in]
			if st.top || len(st.held) == 0 {
				return
			}
			callees := la.calleesOf(ci)
			for _, a := range ci.Call.Args {
				if mc, ok := a.(*ssa.MakeClosure); ok {
					callees = append(callees, mc.Fn.(*ssa.Function))
				}
			}
			if len(callees) == 0 {
				return
			}
			for _, callee := range callees {
				ck := fnKey(callee)
				ord[ck]++
				key := fmt.Sprintf("call-under-lock@%s#%s#%d", fnKey(fn), ck, ord[ck])
				n++
				bad := ""
				for held := range st.held {
					for cl := range acq[callee] {
						if cl == held {
							bad = fmt.Sprintf("%s is called while %s is held, and it (transitively) acquires %s again: self-deadlock", ck, held, cl)
						} else {
							if order[held] == nil {
								order[held] = map[lockClass]string{}
							}
							order[held][cl] = c.Pos(in.Pos())
						}
					}
				}
				var hl []string
				for h := range st.held {
					hl = append(hl, h.String())
				}
				sort.Strings(hl)
				r.Check(bad == "", key, c.Pos(in.Pos()), "callee does not re-acquire "+strings.Join(hl, ","), bad)
			}
		})
	}
	r.Count("calls made under a lock into the analysed packages", n)
	// acyclicity of the class order
	var edges []string
	cyc := ""
	for a, m := range order {
		for b, pos := range m {
			edges = append(edges, fmt.Sprintf("%s -> %s (%s)", a, b, pos))
			if order[b] != nil {
				if p2, ok := order[b][a]; ok {
					cyc = fmt.Sprintf("%s is acquired under %s at %s and %s under %s at %s", b, a, pos, a, b, p2)
				}
			}
		}
	}
	sort.Strings(edges)
	r.Check(cyc == "", "lock-order", "-", "acquired-while-held relation: ["+strings.Join(edges, "; ")+"] is acyclic", "lock order cycle: "+cyc)
}

// ruleR08d cross-checks the guard table: any field of the three concurrent types
// that is stored outside the constructor phase must be guarded (or be the mutex).
func ruleR08d(c *Ctx, r *Report) {
	la := getLockAnalysis(c)
	types3 := map[string]bool{pkgBS + ".ReadOnly": true, pkgBS + ".ReadWrite": true, pkgStorage + ".StorageCar": true, pkgDeferred + ".DeferredCarWriter": true}
	stored := map[fieldID]string{}
	for _, fn := range la.funcs {
		top := fnKey(la.topLevel(fn))
		if _, ok := ctorPhase(c)[top]; ok {
			continue
		}
		eachInstr(fn, func(in ssa.Instruction) {
			st, ok := in.(*ssa.Store)
			if !ok {
				return
			}
			fa, ok := st.Addr.(*ssa.FieldAddr)
			if !ok || freshBase(fa.X) {
				return
			}
			n := namedOf(fa.X.Type())
			fv := fieldVar(fa.X.Type(), fa.Field)
			if n == nil || fv == nil || n.Obj().Pkg() == nil {
				return
			}
			if !types3[n.Obj().Pkg().Path()+"."+n.Obj().Name()] {
				return
			}
			id := fieldID{n.Obj().Pkg().Path(), n.Obj().Name(), fv.Name()}
			if _, seen := stored[id]; !seen {
				stored[id] = c.Pos(in.Pos()) + " in " + fnKey(fn)
			}
		})
	}
	var ids []fieldID
	for id := range stored {
		ids = append(ids, id)
	}
	sort.Slice(ids, func(i, j int) bool { return ids[i].String() < ids[j].String() })
	for _, id := range ids {
		_, g := guards.values[id]
		if g {
			r.Hold("stored-field@"+id.String(), stored[id], "stored after construction and listed in the guard table")
		} else {
			// not an alarm by itself: autoGuard() put it under its type's mutex and R08a checked every access
			r.Hold("stored-field@"+id.String(), stored[id], "stored after construction, not in the frozen table: guarded by inference with its type's mutex, all accesses checked by R08a")
		}
	}
	// every guard table entry must resolve to an existing field
	check := func(id fieldID) {
		n, err := c.Named(id.pkg, id.typ)
		ok := false
		if err == nil {
			if st, isSt := n.Underlying().(interface{ NumFields() int }); isSt {
				_ = st
			}
			for i := 0; ; i++ {
				fv := fieldVar(n, i)
				if fv == nil {
					break
				}
				if fv.Name() == id.field {
					ok = true
				}
			}
		}
		if !ok {
			r.InfraFail("guard table entry %s does not resolve to a field", id)
			return
		}
		r.Hold("guard-entry@"+id.String(), "-", "resolves; reason: "+guards.reason[id])
	}
	var all []fieldID
	seen := map[fieldID]bool{}
	for id := range guards.values {
		if !seen[id] {
			seen[id] = true
			all = append(all, id)
		}
	}
	for id := range guards.pointees {
		if !seen[id] {
			seen[id] = true
			all = append(all, id)
		}
	}
	sort.Slice(all, func(i, j int) bool { return all[i].String() < all[j].String() })
	for _, id := range all {
		check(id)
	}
}

var guardsFrozenValues map[fieldID]lockClass

// autoGuard extends the guard table, for this run, with every field of the
// concurrent types that is stored outside the constructor phase and is not yet
// listed: such a field is shared mutable state, and the only mutex of its type is
// what must protect it. (A new field is then checked, not reported for being new.)
func autoGuard(c *Ctx) {
	// start from the frozen table every time (several trees may be analysed in one process)
	if guardsFrozenValues == nil {
		guardsFrozenValues = map[fieldID]lockClass{}
		for k, v := range guards.values {
			guardsFrozenValues[k] = v
		}
	}
	guards.values = map[fieldID]lockClass{}
	for k, v := range guardsFrozenValues {
		guards.values[k] = v
	}
	typeLock := map[string]lockClass{pkgBS + ".ReadOnly": lkRO, pkgBS + ".ReadWrite": lkRO, pkgStorage + ".StorageCar": lkSC, pkgDeferred + ".DeferredCarWriter": lkDCW}
	for _, fn := range c.RepoFuncs() {
		if fn.Pkg == nil {
			continue
		}
		in := false
		for _, lp := range lockPkgs {
			if fn.Pkg.Pkg.Path() == lp {
				in = true
			}
		}
		if !in {
			continue
		}
		top := fn
		for top.Parent() != nil {
			top = top.Parent()
		}
		if _, ok := ctorPhase(c)[fnKey(top)]; ok {
			continue
		}
		eachInstr(fn, func(ins ssa.Instruction) {
			st, ok := ins.(*ssa.Store)
			if !ok {
				return
			}
			fa, ok := st.Addr.(*ssa.FieldAddr)
			if !ok || freshBase(fa.X) {
				return
			}
			n := namedOf(fa.X.Type())
			fv := fieldVar(fa.X.Type(), fa.Field)
			if n == nil || fv == nil || n.Obj().Pkg() == nil {
				return
			}
			cl, ok := typeLock[n.Obj().Pkg().Path()+"."+n.Obj().Name()]
			if !ok {
				return
			}
			id := fieldID{n.Obj().Pkg().Path(), n.Obj().Name(), fv.Name()}
			if _, ok := guards.values[id]; !ok {
				if _, isMutex := fv.Type().(*types.Named); isMutex && (fv.Name() == cl.field) {
					return
				}
				guards.values[id] = cl
				guards.reason[id] = "inferred: stored after construction in " + fnKey(fn)
			}
		})
	}
}

// ruleR08e: the de-duplication decision and the insertion it justifies happen in
// one critical section: no release of the lock between store.ShouldPut and the
// InsertNoReplace that follows it.
func ruleR08e(c *Ctx, r *Report) {
	la := getLockAnalysis(c)
	for _, fn := range la.funcs {
		sp := callsToFunc(fn, pkgStore, "", "ShouldPut")
		ins := callsToFunc(fn, pkgIndex, "InsertionIndex", "InsertNoReplace")
		if len(sp) == 0 || len(ins) == 0 {
			continue
		}
		key := "check-then-insert@" + fnKey(fn)
		bad := ""
		eachInstr(fn, func(in ssa.Instruction) {
			ci, ok := in.(*ssa.Call)
			if !ok {
				return
			}
			cl, op, ok := lockOp(ci.Common())
			if !ok || (op != "Unlock" && op != "RUnlock") {
				return
			}
			for _, a := range sp {
				for _, b := range ins {
					if instrReaches(a, in) && instrReaches(in, b) {
						bad = fmt.Sprintf("%s is released at %s between the ShouldPut decision (%s) and the insertion (%s): two concurrent Puts of one key can both decide to write", cl, c.Pos(in.Pos()), c.Pos(a.Pos()), c.Pos(b.Pos()))
					}
				}
			}
		})
		st := la.flow[fn].before[sp[0]]
		if bad == "" && !st.top {
			for _, cl := range []lockClass{lkRO, lkSC} {
				if m, ok := st.held[cl]; ok && m != modeW {
					bad = fmt.Sprintf("ShouldPut runs with %s only %s", cl, modeName[m])
				}
			}
		}
		r.Check(bad == "", key, c.Pos(sp[0].Pos()), "decision and insertion in one exclusive critical section", bad)
	}
}

// ruleR08f: a goroutine that does not hold the lock must not capture a value that
// aliases guarded storage (a slice/map/pointer loaded from a guarded field).
func ruleR08f(c *Ctx, r *Report) {
	la := getLockAnalysis(c)
	n := 0
	for child, kind := range la.kind {
		if kind != "go" {
			continue
		}
		n++
		parent := child.Parent()
		key := "goroutine-captures@" + fnKey(child)
		var mc *ssa.MakeClosure
		eachInstr(parent, func(in ssa.Instruction) {
			if m, ok := in.(*ssa.MakeClosure); ok && m.Fn == ssa.Value(child) {
				mc = m
			}
		})
		if mc == nil {
			r.Undec(key, c.Pos(child.Pos()), "closure creation not found")
			continue
		}
		bad := ""
		for i, b := range mc.Bindings {
			srcs := []ssa.Value{b}
			if al, ok := b.(*ssa.Alloc); ok {
				// a captured variable: what is ever stored into its cell
				srcs = nil
				for _, st := range storesTo(al) {
					srcs = append(srcs, st.Val)
				}
			}
			for _, src := range srcs {
				for _, o := range origins(src, originOpts{through: func(call *ssa.Call, f *types.Func) []ssa.Value {
					if bi, ok := call.Call.Value.(*ssa.Builtin); ok && bi.Name() == "append" {
						return call.Call.Args[:1]
					}
					return nil
				}}) {
					if o.Kind != "field" || o.Field == nil {
						continue
					}
					nt := namedOf(o.Base.Type())
					if nt == nil || nt.Obj().Pkg() == nil {
						continue
					}
					id := fieldID{nt.Obj().Pkg().Path(), nt.Obj().Name(), o.Field.Name()}
					cl, guarded := guards.values[id]
					if !guarded {
						continue
					}
					switch o.Field.Type().Underlying().(type) {
					case *types.Slice, *types.Map, *types.Pointer:
					default:
						continue
					}
					if la.entry[child].held[cl] != modeNone {
						continue
					}
					bad = fmt.Sprintf("the goroutine captures %s, which aliases the storage of guarded field %s, and runs without %s", child.FreeVars[i].Name(), id, cl)
				}
			}
		}
		r.Check(bad == "", key, c.Pos(child.Pos()), "captures no alias of guarded storage (or holds the lock)", bad)
	}
	r.Count("goroutines checked for captured aliases", n)
}

func holdsLockByValue(t types.Type, seen map[types.Type]bool) bool {
	if seen[t] {
		return false
	}
	seen[t] = true
	if n := namedOf(t); n != nil && n.Obj().Pkg() != nil && n.Obj().Pkg().Path() == "sync" {
		switch n.Obj().Name() {
		case "Mutex", "RWMutex", "WaitGroup", "Once", "Cond":
			if _, isPtr := t.(*types.Pointer); !isPtr {
				return true
			}
		}
	}
	switch u := t.Underlying().(type) {
	case *types.Struct:
		for i := 0; i < u.NumFields(); i++ {
			if holdsLockByValue(u.Field(i).Type(), seen) {
				return true
			}
		}
	case *types.Array:
		return holdsLockByValue(u.Elem(), seen)
	}
	return false
}

// ruleR08g: one obligation per lock-holding type of the repository.
func ruleR08g(c *Ctx, r *Report) {
	type holder struct {
		key string
		pos token.Pos
		bad []string
	}
	holders := map[*types.TypeName]*holder{}
	for _, p := range c.Pkgs {
		sc := p.Types.Scope()
		for _, n := range sc.Names() {
			tn, ok := sc.Lookup(n).(*types.TypeName)
			if !ok || tn.IsAlias() {
				continue
			}
			if _, isStruct := tn.Type().Underlying().(*types.Struct); !isStruct {
				continue
			}
			if holdsLockByValue(tn.Type(), map[types.Type]bool{}) {
				holders[tn] = &holder{key: "lock-holder@" + shortPkg(p.PkgPath) + "." + tn.Name(), pos: tn.Pos()}
			}
		}
	}
	isHolder := func(t types.Type) *holder {
		if _, isPtr := t.(*types.Pointer); isPtr {
			return nil
		}
		n, ok := t.(*types.Named)
		if !ok {
			return nil
		}
		return holders[n.Obj()]
	}
	for _, fn := range c.RepoFuncs() {
		for _, f := range withAnon(fn) {
			for _, p := range f.Params {
				if h := isHolder(p.Type()); h != nil {
					h.bad = append(h.bad, fmt.Sprintf("%s takes it by value (parameter/receiver %s) at %s", fnKey(f), p.Name(), c.Pos(f.Pos())))
				}
			}
			eachInstr(f, func(in ssa.Instruction) {
				u, ok := in.(*ssa.UnOp)
				if !ok || u.Op != token.MUL {
					return
				}
				if h := isHolder(u.Type()); h != nil {
					// a load of a freshly allocated, never shared local (composite literal being built) is not a copy of a live lock
					if al, isAl := u.X.(*ssa.Alloc); isAl && !al.Heap {
						return
					}
					h.bad = append(h.bad, fmt.Sprintf("copied by value in %s at %s", fnKey(f), c.Pos(u.Pos())))
				}
			})
		}
	}
	var keys []*holder
	for _, h := range holders {
		keys = append(keys, h)
	}
	sort.Slice(keys, func(i, j int) bool { return keys[i].key < keys[j].key })
	for _, h := range keys {
		sort.Strings(h.bad)
		r.Check(len(h.bad) == 0, h.key, c.Pos(h.pos), "only used through pointers", strings.Join(h.bad, "; ")+": the copy carries its own mutex")
	}
}

func ruleR08h(c *Ctx, r *Report) {
	fn, err := c.Func(pkgIntIO, "", "NewOffsetReadSeeker")
	if err != nil {
		r.InfraFail("%v", err)
		return
	}
	key := "fresh-cursor@" + fnKey(fn)
	bad := ""
	n := 0
	for _, ret := range returnsOf(fn) {
		if len(ret.Results) == 0 || isNilConst(ret.Results[0]) {
			continue
		}
		for _, o := range origins(ret.Results[0], originOpts{}) {
			if o.Kind == "alloc" {
				if al, ok := o.Val.(*ssa.Alloc); ok && al.Parent() == fn {
					n++
					continue
				}
			}
			bad = fmt.Sprintf("the return at %s hands out a value that is not allocated by this call (%s): two callers then share one read position", c.Pos(ret.Pos()), o.Kind)
		}
	}
	if bad == "" && n == 0 {
		bad = "no allocating return found"
	}
	r.Check(bad == "", key, c.Pos(fn.Pos()), fmt.Sprintf("%d return(s), each a fresh offsetReadSeeker", n), bad)
}

func ruleR08j(c *Ctx, r *Report) {
	for _, m := range []string{"HasExactCID", "HasMultihash", "Get", "GetAll", "ForEach", "ForEachCid", "Marshal", "Flatten", "getRecord"} {
		fn, err := c.Func(pkgIndex, "InsertionIndex", m)
		if err != nil {
			r.InfraFail("%v", err)
			continue
		}
		key := "read-method-pure@" + fnKey(fn)
		bad := ""
		seen := map[*ssa.Function]bool{}
		var visit func(f *ssa.Function, recv ssa.Value, depth int)
		visit = func(f *ssa.Function, recv ssa.Value, depth int) {
			if seen[f] || depth > 3 {
				return
			}
			seen[f] = true
			for _, g := range withAnon(f) {
				eachInstr(g, func(in ssa.Instruction) {
					switch x := in.(type) {
					case *ssa.Store:
						if fa, ok := x.Addr.(*ssa.FieldAddr); ok && isNamed(derefType(fa.X.Type()), pkgIndex, "InsertionIndex") {
							fv := fieldVar(fa.X.Type(), fa.Field)
							bad = fmt.Sprintf("field %s of the index is written at %s", fv.Name(), c.Pos(x.Pos()))
						}
						// a store through a pointer into a field of the index (ii.probe.digest = ...)
						if fa, ok := x.Addr.(*ssa.FieldAddr); ok {
							if inner, ok := fa.X.(*ssa.FieldAddr); ok && isNamed(derefType(inner.X.Type()), pkgIndex, "InsertionIndex") {
								fv := fieldVar(inner.X.Type(), inner.Field)
								bad = fmt.Sprintf("field %s of the index is written at %s", fv.Name(), c.Pos(x.Pos()))
							}
						}
					case ssa.CallInstruction:
						if sc := staticTarget(x.Common()); sc != nil && sc.Signature.Recv() != nil && isNamed(derefType(sc.Signature.Recv().Type()), pkgIndex, "InsertionIndex") {
							visit(sc, nil, depth+1)
						}
					}
				})
			}
		}
		visit(fn, nil, 0)
		r.Check(bad == "", key, c.Pos(fn.Pos()), "stores to no field of the index", bad+": lookups run under the store's shared lock, so two of them race on that field and one answers for the other's key")
	}
}
