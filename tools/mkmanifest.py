#!/usr/bin/env python3
"""Regenerate /verif/MANIFEST.json from the properties carlint implements (bin/carlint -list)
and the per-property texts in tools/manifest_texts.json."""
import json, subprocess, os
props=[json.loads(l) for l in open('/verif/properties.jsonl')]
impl={l.split()[0] for l in subprocess.check_output(['/verif/bin/carlint','-list'],text=True).splitlines() if l.strip()}
texts=json.load(open('/verif/tools/manifest_texts.json'))
base="for m in . cmd v2; do (cd /repo/$m && go build ./... && GOFLAGS=-mod=mod go test -vet=off -count=1 -timeout 25m ./...) || exit 1; done"
m={
 "version":1,
 "setup_cmd":"cd /verif/carlint && GOFLAGS=-mod=mod GOPROXY=off GOSUMDB=off GOTOOLCHAIN=local GOWORK=off go build -o /verif/bin/carlint . && cd /verif && bin/carlint -warm",
 "hooks":{"guard":"verif","enable":"none needed: the checker reads /repo's source through go/packages; it never builds or runs /repo","baseline_off_cmd":base,"source_commits":[],"add_only":True},
 "engines":[{"name":"carlint","path":"/verif/carlint","serves_properties":sorted(impl),"kind_free_text":"repository-specific static analyser over go/types + go/ssa (x/tools v0.29.0): edge-cut reachability (must-pass-through), value provenance, error flow, affine size forms, must-hold lock-set dataflow with VTA-resolved dispatch"}],
 "checks":[],"not_applicable":[],
 "notes":"Static analysis only; every claim is level 'other': a structural necessary condition is decided for all paths of the current source, the behaviour itself is not. See DESIGN.md."}
for p in props:
    id=p['id']; t=texts.get(id,{})
    if id in impl:
        m["checks"].append({"property_id":id,"quick_cmd":f"bin/carlint -property {id} -tier quick","thorough_cmd":f"bin/carlint -property {id} -tier thorough","evidence_file":f"/verif/evidence/{id}.json","engine":"carlint",
          "replay_cmd_template":"cat {path}",
          "level_claimed":{"category":"other","text":t.get("text","structural necessary conditions of the property decided for all paths of the current source; the behaviour itself is not decided"),"design_ref":"DESIGN.md section 3, "+id},
          "level_note":t.get("note","trusts go/types, go/ssa (x/tools v0.29.0) and the documented contracts of dependencies; see evidence.assumptions and coverage.explanation for what is not decided"),
          "technique":t.get("technique","static analysis over type-checked SSA: edge-cut reachability, provenance and error-flow rules")})
    else:
        m["not_applicable"].append({"property_id":id,"reason":t.get("na","no sound structural rule built for it yet; see DESIGN.md")})
json.dump(m,open('/verif/MANIFEST.json','w'),indent=1)
print("claimed",sorted(impl))
