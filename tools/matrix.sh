#!/bin/bash
# usage: matrix.sh <dir-with-Cxx/patchN.diff>  -- for every patch: which properties' checks report it
ROOT="${1:-/tmp/wt/out}"
cd /repo || exit 2
for d in $(ls -d $ROOT/C?? | sort); do
  id=$(basename $d)
  for p in $(ls $d/patch*.diff 2>/dev/null | sort); do
    n=$(basename $p .diff)
    if ! git diff --quiet; then echo "/repo dirty"; exit 2; fi
    if ! git apply "$p" 2>/dev/null; then echo "$id/$n: DOES-NOT-APPLY"; continue; fi
    SCR=$(mktemp -d); cp /verif/KNOWN_FINDINGS.txt $SCR/
    out=$(/verif/bin/carlint -property all -verif $SCR 2>&1)
    hits=$(echo "$out" | grep "^VIOLATION" | sed 's/VIOLATION property=\([^ ]*\).*/\1/' | tr '\n' ' ')
    infra=$(echo "$out" | grep -c "infrastructure\|cannot load")
    own="MISSED"; echo "$hits" | grep -qw "$id" && own="own"
    [ -n "$hits" ] && [ "$own" = "MISSED" ] && own="other"
    echo "$id/$n: $own [$hits] infra=$infra"
    git checkout -q -- . ; git clean -fdq; rm -rf $SCR
  done
done
