#!/bin/bash
# usage: matrix_seeded.sh [glob, default '*']  -- for every stored seeded change /verif/seeded/<glob>/patch.diff:
# apply to /repo, run all 20 checks into a scratch evidence dir, undo; report own/other/MISSED.
G="${1:-*}"
cd /repo || exit 2
for d in $(ls -d /verif/seeded/$G | sort); do
  name=$(basename $d); id=${name%%-*}; p=$d/patch.diff
  if ! git diff --quiet; then echo "/repo dirty"; exit 2; fi
  if ! git apply "$p" 2>/dev/null; then echo "$name: DOES-NOT-APPLY"; continue; fi
  SCR=$(mktemp -d); cp /verif/KNOWN_FINDINGS.txt $SCR/
  out=$(/verif/bin/carlint -property all -verif $SCR 2>&1)
  hits=$(echo "$out" | grep "^VIOLATION" | sed 's/VIOLATION property=\([^ ]*\).*/\1/' | tr '\n' ' ')
  infra=$(echo "$out" | grep -c "infrastructure\|cannot load")
  own="MISSED"; echo "$hits" | grep -qw "$id" && own="own"
  [ -n "$hits" ] && [ "$own" = "MISSED" ] && own="other"
  echo "$name: $own [$hits] infra=$infra"
  git checkout -q -- . ; git clean -fdq; rm -rf $SCR
done
