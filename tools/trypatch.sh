#!/bin/bash
# usage: trypatch.sh [-R] <patch> [property|all]   -- apply a patch to /repo, run carlint, undo.
# Evidence is written to a scratch dir so that committed evidence is not disturbed.
REV=""
if [ "$1" = "-R" ]; then REV="-R"; shift; fi
P="$1"; PROP="${2:-all}"
cd /repo || exit 2
if ! git diff --quiet; then echo "/repo is dirty"; exit 2; fi
git apply $REV "$P" || { echo "patch does not apply"; exit 2; }
SCR=$(mktemp -d)
cp /verif/KNOWN_FINDINGS.txt $SCR/ 2>/dev/null
/verif/bin/carlint -property "$PROP" -verif $SCR 2>&1 | grep -E "VIOLAT|UNDECIDED|infrastructure|cannot load|KNOWN" | cut -c1-400
rc=${PIPESTATUS[0]}
git -C /repo checkout -- . ; git -C /repo clean -fdq
rm -rf $SCR
exit $rc
