#!/usr/bin/env python3
"""store_seeded.py <src out dir> <round tag> <matrix file> [first-contact matrix file]: copy confirmed seeded changes to /verif/seeded/<Cxx>-<tag><n>/"""
import json,sys,os,shutil,re,glob
src,tag,matrix=sys.argv[1:4]
def readm(f):
    out={}
    for l in open(f):
        m=re.match(r'(C\d+)/patch(\d): (\w+) \[(.*)\]',l)
        if m: out[(m.group(1),int(m.group(2)))]=(m.group(3),m.group(4).split())
    return out
caught=readm(matrix)
first=readm(sys.argv[4]) if len(sys.argv)>4 else {}
n=0
for conf in sorted(glob.glob(f'{src}/C*/confirm*.json')):
    c=json.load(open(conf))
    if not c.get('confirmed'): continue
    id,k=c['id'],c['n']
    d=f'/verif/seeded/{id}-{tag}{k}'
    shutil.rmtree(d,ignore_errors=True); os.makedirs(d)
    shutil.copy(f'{src}/{id}/patch{k}.diff',f'{d}/patch.diff')
    dd=f'{src}/{id}/demo{k}'
    if os.path.isdir(dd):
        shutil.copytree(dd,f'{d}/demo',ignore=shutil.ignore_patterns('*.test','out.txt'))
        for root,_,files in os.walk(f'{d}/demo'):
            for fn in files:
                fp=os.path.join(root,fn)
                try: t=open(fp).read()
                except Exception: continue
                t2=re.sub(r'/tmp/wt[0-9]*/(?!out\b)[A-Za-z0-9_]+','/REPO_SCRATCH_WORKTREE',t)
                if t2!=t: open(fp,'w').write(t2)
    meta={}
    try: meta=json.load(open(f'{src}/{id}/meta{k}.json'))
    except Exception as e: meta={'note':'agent meta unreadable: '+str(e)}
    how,props=caught.get((id,k),('?',[]))
    meta.update({'property':id,'round':tag,
      'confirmed_by_me':{'suite_passes_with_patch':c['suite_passes_with_patch'],'demo_exit_without_patch':c['demo_exit_without_patch'],'demo_exit_with_patch':c['demo_exit_with_patch'],
         'what_i_ran':'tools/confirm_seeded.sh: in a scratch worktree of /repo HEAD: demo `go test ./...` without the patch (exit 0 required), `git apply patch.diff`, `go build ./... && go test -vet=off -count=1 ./...` in ., v2, cmd (all pass required), demo again (non-zero required), `git checkout -- .`; demo go.mod replace paths must be pointed at the scratch worktree (/REPO_SCRATCH_WORKTREE placeholder)'},
      'detected_by_checks':props,'detected_by_own_property_check': how=='own'})
    if (id,k) in first:
        fh,fp_=first[(id,k)]
        meta['first_contact']={'note':'result of the checks as they were BEFORE this change was seen','detected_by_checks':fp_,'detected_by_own_property_check':fh=='own'}
    json.dump(meta,open(f'{d}/meta.json','w'),indent=1)
    n+=1
print('stored',n)
