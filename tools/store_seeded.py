#!/usr/bin/env python3
"""store_seeded.py <src out dir> <round tag> <matrix file>: copy confirmed seeded changes to /verif/seeded/<Cxx>-<tag><n>/"""
import json,sys,os,shutil,re,glob
src,tag,matrix=sys.argv[1:4]
caught={}
for l in open(matrix):
    m=re.match(r'(C\d+)/patch(\d): (\w+) \[(.*)\]',l)
    if m: caught[(m.group(1),int(m.group(2)))]=(m.group(3),m.group(4).split())
n=0
for conf in sorted(glob.glob(f'{src}/C*/confirm*.json')):
    c=json.load(open(conf))
    if not c.get('confirmed'): continue
    id,k=c['id'],c['n']
    d=f'/verif/seeded/{id}-{tag}{k}'
    shutil.rmtree(d,ignore_errors=True); os.makedirs(d)
    shutil.copy(f'{src}/{id}/patch{k}.diff',f'{d}/patch.diff')
    dd=f'{src}/{id}/demo{k}'
    if os.path.isdir(dd):
        shutil.copytree(dd,f'{d}/demo',ignore=shutil.ignore_patterns('*.test','out.txt'))
        gm=f'{d}/demo/go.mod'
        if os.path.exists(gm):
            t=open(gm).read(); t=re.sub(r'/tmp/wt2?/[A-Za-z0-9_]+','/REPO_SCRATCH_WORKTREE',t); open(gm,'w').write(t)
    meta={}
    try: meta=json.load(open(f'{src}/{id}/meta{k}.json'))
    except Exception as e: meta={'note':'agent meta unreadable: '+str(e)}
    how,props=caught.get((id,k),('?',[]))
    meta.update({'property':id,'round':tag,
      'confirmed_by_me':{'suite_passes_with_patch':c['suite_passes_with_patch'],'demo_exit_without_patch':c['demo_exit_without_patch'],'demo_exit_with_patch':c['demo_exit_with_patch'],
         'what_i_ran':'tools/confirm_seeded.sh: in a scratch worktree of /repo HEAD: demo `go test ./...` without the patch (exit 0 required), `git apply patch.diff`, `go build ./... && go test -vet=off -count=1 ./...` in ., v2, cmd (all pass required), demo again (non-zero required), `git checkout -- .`; demo go.mod replace paths must be pointed at the scratch worktree (/REPO_SCRATCH_WORKTREE placeholder)'},
      'detected_by_checks':props,'detected_by_own_property_check': how=='own'})
    json.dump(meta,open(f'{d}/meta.json','w'),indent=1)
    n+=1
print('stored',n)
