#!/bin/bash
# usage: falsealarm.sh <dir with Rk/refactorN.diff> -- behaviour-preserving patches: every alarm is a false alarm
ROOT="${1:-/tmp/wt3/out}"
cd /repo || exit 2
for p in $(ls $ROOT/R*/refactor*.diff 2>/dev/null | sort -V); do
  if ! git diff --quiet; then echo "/repo dirty"; exit 2; fi
  if ! git apply "$p" 2>/dev/null; then echo "$p: DOES-NOT-APPLY"; continue; fi
  SCR=$(mktemp -d); cp /verif/KNOWN_FINDINGS.txt $SCR/
  out=$(/verif/bin/carlint -property all -verif $SCR 2>&1)
  n=$(echo "$out" | grep -c "^VIOLATION")
  infra=$(echo "$out" | grep -c "infrastructure\|cannot load")
  echo "$(echo $p | sed "s#$ROOT/##"): alarms=$n infra=$infra"
  echo "$out" | grep -E "VIOLATED|UNDECIDED|infrastructure" | cut -c1-260 | sed 's/^/      /'
  git checkout -q -- . ; git clean -fdq; rm -rf $SCR
done
