#!/bin/bash
# every patch in /verif/benign is behaviour-preserving: any alarm is a false alarm
cd /repo || exit 2
fail=0
for p in $(ls /verif/benign/*.diff | sort -V); do
  if ! git diff --quiet; then echo "/repo dirty"; exit 2; fi
  git apply "$p" 2>/dev/null || { echo "$(basename $p): does not apply (tree moved)"; continue; }
  SCR=$(mktemp -d); cp /verif/KNOWN_FINDINGS.txt $SCR/
  out=$(/verif/bin/carlint -property all -verif $SCR 2>&1)
  n=$(echo "$out" | grep -c "^VIOLATION"); i=$(echo "$out" | grep -c "infrastructure\|cannot load")
  [ "$n" != 0 -o "$i" != 0 ] && { fail=1; echo "$(basename $p): alarms=$n infra=$i"; echo "$out" | grep -E "VIOLATED|UNDECIDED|infrastructure" | cut -c1-220 | sed 's/^/   /'; }
  git checkout -q -- . ; git clean -fdq; rm -rf $SCR
done
[ $fail = 0 ] && echo "silent on all benign refactorings"
exit $fail
