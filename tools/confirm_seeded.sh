#!/bin/bash
# usage: confirm_seeded.sh <src out dir> <id> <n> <worktree> ; confirms one seeded change:
#  suite passes with the patch; demo fails with the patch; demo passes without. Writes <src>/<id>/confirm<n>.json
SRC=$1; ID=$2; N=$3; WT=$4
export GOFLAGS=-mod=mod GOPROXY=off GOSUMDB=off GOTOOLCHAIN=local; unset GOWORK
P=$SRC/$ID/patch$N.diff; D=$SRC/$ID/demo$N
[ -f "$P" ] || exit 0
cd $WT && git checkout -q -- . && git clean -fdq
DEMO=$(mktemp -d /tmp/demo_XXXX); cp -r $D/. $DEMO/ 2>/dev/null
grep -rlE "/tmp/wt[0-9]*/[A-Za-z0-9_]+" $DEMO 2>/dev/null | xargs -r sed -i -E "s#/tmp/wt[0-9]*/(C[0-9]+|verify[0-9]|R[0-9]+|[A-Za-z0-9_]+)#$WT#g"
run_demo() { (cd $DEMO && timeout 600 go test -count=1 ./... >$DEMO/out.txt 2>&1; echo $?); }
base=$(run_demo)
applies=true; git apply "$P" 2>/dev/null || applies=false
suite=true
if $applies; then
  for m in . v2 cmd; do (cd $WT/$m && go build ./... >/dev/null 2>&1 && timeout 1500 go test -vet=off -count=1 ./... >/tmp/suite_$$.txt 2>&1) || suite=false; done
  withp=$(run_demo)
else suite=false; withp=-1; fi
git checkout -q -- . ; git clean -fdq
python3 - <<PY
import json
json.dump({"id":"$ID","n":$N,"patch_applies":"$applies"=="true","suite_passes_with_patch":"$suite"=="true","demo_exit_without_patch":$base,"demo_exit_with_patch":$withp,
 "confirmed": "$applies"=="true" and "$suite"=="true" and $base==0 and $withp!=0}, open("$SRC/$ID/confirm$N.json","w"))
PY
rm -rf $DEMO /tmp/suite_$$.txt
